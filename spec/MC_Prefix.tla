----------------------------- MODULE MC_Prefix -----------------------------
(* C18: the writer that stopped early.  A template object (tables early, every section kind the
   accessors look for) is built from the ABI; for EVERY prefix length each query's answer on the
   prefix is an error or equals its answer on the complete file (PrefixRel, checked on the spec),
   and each prefix is emitted as a session for replay on the crate. *)
EXTENDS MCFile
CONSTANTS Encodings          \* subset of {<<32, TRUE>>, <<32, FALSE>>, <<64, TRUE>>, <<64, FALSE>>} given as 1..4

EncOf(k) == CASE k = 1 -> <<32, TRUE>> [] k = 2 -> <<32, FALSE>> [] k = 3 -> <<64, TRUE>> [] k = 4 -> <<64, FALSE>>

Template(class, little) ==
    LET symsz == CSize("sym", class) dynsz == CSize("dyn", class)
        dynstr == <<0, 97, 98, 0, 99, 0>>
        sym0 == Enc("sym", class, little, [st_name |-> W4(0), st_value |-> W8(0), st_size |-> W8(0), st_info |-> <<0>>, st_other |-> <<0>>, st_shndx |-> W2(0)])
        sym1 == Enc("sym", class, little, [st_name |-> W4(1), st_value |-> W8(4660), st_size |-> W8(8), st_info |-> <<18>>, st_other |-> <<0>>, st_shndx |-> W2(6)])
        dyn0 == Enc("dyn", class, little, [d_tag |-> W8(5), d_un |-> W8(300)])
        dyn1 == Enc("dyn", class, little, [d_tag |-> W8(0), d_un |-> W8(0)])
        w32(n) == IF little THEN W4(n) ELSE Rev(W4(n))
        note == w32(2) \o w32(4) \o w32(9) \o <<88, 0, 0, 0>> \o <<1, 2, 3, 4>>
        secs == << NullSec,
                   Sec(<<46, 115, 104>>, 3, <<>>),                                          \* ".sh"  (section names)
                   Sec(<<46, 100, 115>>, 3, dynstr),                                        \* ".ds"
                   [Sec(<<46, 100, 121>>, 11, sym0 \o sym1) EXCEPT !.link = 2, !.entsize = symsz, !.info = 1],   \* ".dy"
                   [Sec(<<46, 100>>, 6, dyn0 \o dyn1) EXCEPT !.entsize = dynsz, !.link = 2],                  \* ".d"
                   [Sec(<<46, 110>>, 7, note) EXCEPT !.align = 4],                           \* ".n"
                   Sec(<<46, 116>>, 1, <<144, 145, 146, 147, 148>>) >>                      \* ".t"
        segs == << [type |-> 2, flags |-> 6, sec |-> 4, off |-> 0, filesz |-> 0, memsz |-> 0, align |-> 8],
                   [type |-> 4, flags |-> 4, sec |-> 5, off |-> 0, filesz |-> 0, memsz |-> 0, align |-> 4] >>
    IN BuildObj(class, little, secs, segs, [DefaultOpts EXCEPT !.shstrndx = 1])

\* constant-level tables (TLC evaluates them once): the complete files, their handles, the query script with
\* headers as the complete file declares them, and the complete file's answers
FullF == [k \in 1..4 |-> Template(EncOf(k)[1], EncOf(k)[2])]
EbF == [k \in 1..4 |-> Open(F(FullF[k]), "Any")]
QsF == [k \in 1..4 |->
         LET ff == F(FullF[k]) ebF == EbF[k] IN
         [i \in 1..6 |-> [name |-> "section_data", shdr |-> ShdrAt(ff, ebF, i)]] \o
         << [name |-> "section_data_as_strtab", shdr |-> ShdrAt(ff, ebF, 2)],
            [name |-> "section_data_as_notes", shdr |-> ShdrAt(ff, ebF, 5)],
            [name |-> "section_data_as_rels", shdr |-> ShdrAt(ff, ebF, 6)],
            [name |-> "segment_data", phdr |-> PhdrAt(ff, ebF, 0)],
            [name |-> "segment_data", phdr |-> PhdrAt(ff, ebF, 1)],
            [name |-> "segment_data_as_notes", phdr |-> PhdrAt(ff, ebF, 1)],
            [name |-> "shdrs_with_strtab"],
            [name |-> "shdr_by_name", qname |-> <<46, 116>>],
            [name |-> "shdr_by_name", qname |-> <<46, 100>>],
            [name |-> "shdr_by_name", qname |-> <<46, 122>>],
            [name |-> "symbol_table"], [name |-> "dynamic_symbol_table"], [name |-> "dynamic"],
            [name |-> "symbol_version_table", qs |-> <<>>],
            [name |-> "find_common_data", names |-> <<>>] >>]
FullAns == [k \in 1..4 |-> [i \in 1..Len(QsF[k]) |-> QExp(F(FullF[k]), EbF[k], QsF[k][i])]]
FullOpen == [k \in 1..4 |-> OpenExp(F(FullF[k]), "Any")]

\* three stages so that the workers share the prefixes: encoding, block of 8 prefix lengths, prefix length
VARIABLE c
Init == c = [stage |-> 0, enc |-> 0, cut |-> 0]
Next == \/ c.stage = 0 /\ \E k \in Encodings : \E b \in 0..(Len(FullF[k]) \div 8) : c' = [stage |-> 1, enc |-> k, cut |-> 8 * b]
        \/ c.stage = 1 /\ \E d \in 0..7 : c.cut + d <= Len(FullF[c.enc]) /\ c' = [stage |-> 2, enc |-> c.enc, cut |-> c.cut + d]

Pre == SubSeq(FullF[c.enc], 1, c.cut)
Qs == QsF[c.enc]

\* the complete file is what the template says it is (sanity of the builder and of the semantics)
FullOk == LET k == c.enc IN
          /\ EbF[k].ok /\ NSh(EbF[k]) = 7 /\ NPh(EbF[k]) = 2
          /\ \A i \in {1, 2, 3, 4, 5, 6, 7, 8, 10, 11, 12, 13, 14, 15, 18, 19, 21} : FullAns[k][i].out = "ok"
          /\ FullAns[k][9].out = "err" /\ FullAns[k][16].out = "none" /\ FullAns[k][17].out = "none"

Prop_C18 ==
    LET pf == F(Pre)
        ebP == Open(pf, "Any")
        po == OpenExp(pf, "Any")
    IN /\ (po.out = "err" \/ po = FullOpen[c.enc])
       /\ ebP.ok => \A i \in 1..Len(Qs) :
                      LET p == QExp(pf, ebP, Qs[i]) IN p.out = "err" \/ p = FullAns[c.enc][i]
Emit == PrintT(ToJson(Session(Pre, "Any", Qs, [family |-> "mc-prefix", cut |-> c.cut, enc |-> c.enc])))
Inv == c.stage = 2 => (FullOk /\ Prop_C18 /\ Emit)
=============================================================================
