----------------------------- MODULE MC_Prefix -----------------------------
(* C18: the writer that stopped early.  A template object (tables early, every section kind the
   accessors look for) is built from the ABI; for EVERY prefix length each query's answer on the
   prefix is an error or equals its answer on the complete file (PrefixRel, checked on the spec),
   and each prefix is emitted as a session for replay on the crate. *)
EXTENDS Template
CONSTANTS Encodings          \* subset of {<<32, TRUE>>, <<32, FALSE>>, <<64, TRUE>>, <<64, FALSE>>} given as 1..4

FullAns == [k \in 1..16 |-> [i \in 1..Len(QsF[k]) |-> QExp(F(FullF[k]), EbF[k], QsF[k][i])]]
FullOpen == [k \in 1..16 |-> OpenExp(F(FullF[k]), "Any")]

\* three stages so that the workers share the prefixes: encoding, block of 8 prefix lengths, prefix length
VARIABLE c
Init == c = [stage |-> 0, enc |-> 0, cut |-> 0]
Next == \/ c.stage = 0 /\ \E k \in Encodings : \E b \in 0..(Len(FullF[k]) \div 8) : c' = [stage |-> 1, enc |-> k, cut |-> 8 * b]
        \/ c.stage = 1 /\ \E d \in 0..7 : c.cut + d <= Len(FullF[c.enc]) /\ c' = [stage |-> 2, enc |-> c.enc, cut |-> c.cut + d]

Pre == SubSeq(FullF[c.enc], 1, c.cut)
Qs == QsF[c.enc]

\* the complete file is what the template says it is (sanity of the builder and of the semantics)
FullOk == LET k == c.enc IN
          /\ EbF[k].ok /\ NSh(EbF[k]) = 7 /\ NPh(EbF[k]) = 3
          /\ \A i \in {1, 2, 3, 4, 5, 6, 7, 8, 10, 11, 12, 13, 14, 15, 18, 19, 21, 22} : FullAns[k][i].out = "ok"
          /\ FullAns[k][9].out = "err" /\ FullAns[k][16].out = "none" /\ FullAns[k][17].out = "none"

Prop_C18 ==
    LET pf == F(Pre)
        ebP == Open(pf, "Any")
        po == OpenExp(pf, "Any")
    IN /\ (po.out = "err" \/ po = FullOpen[c.enc])
       /\ ebP.ok => \A i \in 1..Len(Qs) :
                      LET p == QExp(pf, ebP, Qs[i]) IN p.out = "err" \/ p = FullAns[c.enc][i]
Emit == PrintT(ToJson(Session(Pre, "Any", Qs, [family |-> "mc-prefix", cut |-> c.cut, enc |-> c.enc])))
Inv == c.stage = 2 => (FullOk /\ Prop_C18 /\ Emit)
=============================================================================
