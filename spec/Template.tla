------------------------------ MODULE Template ------------------------------
(* A template object built from the ABI (Build.tla) in the four encodings, its handle and the query
   script whose headers are the ones the complete file declares.  Shared by MC_Prefix and MC_Corrupt. *)
EXTENDS MCFile

\* k in 1..16: encoding ((k-1) % 4) + 1 of variant (k-1) \div 4  (0 plain, 1 extended section numbering,
\* 2 PT_DYNAMIC designating only the first entry of .dynamic, 3 a core file: e_type = ET_CORE - a field no
\* property mentions, so no answer may depend on it)
EncOf(k) == LET e == ((k - 1) % 4) + 1 IN CASE e = 1 -> <<32, TRUE>> [] e = 2 -> <<32, FALSE>> [] e = 3 -> <<64, TRUE>> [] e = 4 -> <<64, FALSE>>
VariantOf(k) == (k - 1) \div 4

Template(class, little, variant) ==
    LET symsz == CSize("sym", class) dynsz == CSize("dyn", class)
        dynstr == <<0, 97, 98, 0, 99, 0>>
        sym0 == Enc("sym", class, little, [st_name |-> W4(0), st_value |-> W8(0), st_size |-> W8(0), st_info |-> <<0>>, st_other |-> <<0>>, st_shndx |-> W2(0)])
        sym1 == Enc("sym", class, little, [st_name |-> W4(1), st_value |-> W8(4660), st_size |-> W8(8), st_info |-> <<18>>, st_other |-> <<0>>, st_shndx |-> W2(6)])
        dyn0 == Enc("dyn", class, little, [d_tag |-> W8(5), d_un |-> W8(300)])
        dyn1 == Enc("dyn", class, little, [d_tag |-> W8(0), d_un |-> W8(0)])
        w32(n) == IF little THEN W4(n) ELSE Rev(W4(n))
        note == w32(2) \o w32(4) \o w32(9) \o <<88, 0, 0, 0>> \o <<1, 2, 3, 4>>
        secs == << NullSec,
                   Sec(<<46, 115, 104>>, 3, <<>>),                                          \* ".sh"  (section names)
                   Sec(<<46, 100, 115>>, 3, dynstr),                                        \* ".ds"
                   [Sec(<<46, 100, 121>>, 11, sym0 \o sym1) EXCEPT !.link = 2, !.entsize = symsz, !.info = 1],   \* ".dy"
                   [Sec(<<46, 100>>, 6, dyn0 \o dyn1) EXCEPT !.entsize = dynsz, !.link = 2],                  \* ".d"
                   [Sec(<<46, 110>>, 7, note) EXCEPT !.align = 4],                           \* ".n"
                   Sec(<<46, 116>>, 1, <<144, 145, 146, 147, 148>>) >>                      \* ".t"
        segs == << [type |-> 2, flags |-> 6, sec |-> 4, off |-> 0, filesz |-> 0, memsz |-> 0, align |-> 8,
                    part |-> IF variant = 2 THEN dynsz ELSE 0],
                   [type |-> 4, flags |-> 4, sec |-> 5, off |-> 0, filesz |-> 0, memsz |-> 0, align |-> 4],
                   [type |-> 1, flags |-> 5, sec |-> 6, off |-> 0, filesz |-> 0, memsz |-> 16, align |-> 16] >>       \* PT_LOAD over ".t"
    IN BuildObj(class, little, secs, segs, [DefaultOpts EXCEPT !.shstrndx = 1, !.shnum_ext = (variant = 1),
                                                                !.etype = IF variant = 3 THEN 4 ELSE 3])

\* constant-level tables (TLC evaluates them once): the complete files, their handles, the query script with
\* headers as the complete file declares them, and the complete file's answers
FullF == [k \in 1..16 |-> Template(EncOf(k)[1], EncOf(k)[2], VariantOf(k))]
EbF == [k \in 1..16 |-> Open(F(FullF[k]), "Any")]
QsF == [k \in 1..16 |->
         LET ff == F(FullF[k]) ebF == EbF[k] IN
         [i \in 1..6 |-> [name |-> "section_data", shdr |-> ShdrAt(ff, ebF, i)]] \o
         << [name |-> "section_data_as_strtab", shdr |-> ShdrAt(ff, ebF, 2)],
            [name |-> "section_data_as_notes", shdr |-> ShdrAt(ff, ebF, 5)],
            [name |-> "section_data_as_rels", shdr |-> ShdrAt(ff, ebF, 6)],
            [name |-> "segment_data", phdr |-> PhdrAt(ff, ebF, 0)],
            [name |-> "segment_data", phdr |-> PhdrAt(ff, ebF, 1)],
            [name |-> "segment_data_as_notes", phdr |-> PhdrAt(ff, ebF, 1)],
            [name |-> "shdrs_with_strtab"],
            [name |-> "shdr_by_name", qname |-> <<46, 116>>],
            [name |-> "shdr_by_name", qname |-> <<46, 100>>],
            [name |-> "shdr_by_name", qname |-> <<46, 122>>],
            [name |-> "symbol_table"], [name |-> "dynamic_symbol_table"], [name |-> "dynamic"],
            [name |-> "symbol_version_table", qs |-> <<>>],
            [name |-> "find_common_data", names |-> <<>>],
            [name |-> "segment_data", phdr |-> PhdrAt(ff, ebF, 2)] >>]
=============================================================================
