------------------------------ MODULE MC_Paths ------------------------------
(* C20: alternative access paths agree.  Objects with/without each of .symtab, .dynsym, .dynamic,
   .hash and PT_DYNAMIC (PT_DYNAMIC only together with .dynamic), at most one section per kind,
   section names that are prefixes / extensions / duplicates of each other and one non-UTF-8 name:
     * find_common_data designates the same tables as the targeted accessors,
     * section_header_by_name(n) is the first section whose name equals n, for every name, every
       proper prefix and every one-byte extension of a name,
     * a typed view is refused exactly when the type differs,
     * the dynamic table through the section equals the one through the segment.            *)
EXTENDS MCFile
CONSTANTS Classes

VARIABLE c
Machines == (0..260) \cup {21569, 36902, 41872, 65535}
Init == c = [stage |-> 0]
Next == \/ c.stage = 0 /\ \E cl \in Classes, l \in BOOLEAN : c' = [stage |-> 1, class |-> cl, little |-> l]
        \/ c.stage = 1 /\ \E sy \in BOOLEAN, dy \in BOOLEAN, dn \in BOOLEAN, hs \in BOOLEAN, pd \in BOOLEAN :
                             /\ (hs => dy)      \* pd without dn: PT_DYNAMIC designates a plain PROGBITS section (no SHT_DYNAMIC)
                             /\ c' = [c EXCEPT !.stage = 2] @@ [sy |-> sy, dy |-> dy, dn |-> dn, hs |-> hs, pd |-> pd, mach |-> 62, hz |-> 4]
        \* the machine sweep: the richest object for EVERY e_machine value 0..260 (and a few beyond), with the entry size
        \* of .hash as the gABI has it (4) and as the 64-bit Alpha / s390x supplements have it (8): no property mentions the
        \* machine or that entry size, so no answer may depend on them
        \/ c.stage = 1 /\ c.little /\ c.class = 64 /\ \E m \in Machines, hz \in {4, 8} :
                             /\ ~(m = 62 /\ hz = 4)
                             /\ c' = [c EXCEPT !.stage = 2] @@ [sy |-> TRUE, dy |-> TRUE, dn |-> TRUE, hs |-> TRUE, pd |-> TRUE, mach |-> m, hz |-> hz]

SymBytes(class, little) ==
    Enc("sym", class, little, [st_name |-> W4(0), st_value |-> W8(0), st_size |-> W8(0), st_info |-> <<0>>, st_other |-> <<0>>, st_shndx |-> W2(0)]) \o
    Enc("sym", class, little, [st_name |-> W4(1), st_value |-> W8(77), st_size |-> W8(8), st_info |-> <<18>>, st_other |-> <<0>>, st_shndx |-> W2(3)])
DynBytes(class, little) ==
    Enc("dyn", class, little, [d_tag |-> W8(5), d_un |-> W8(300)]) \o Enc("dyn", class, little, [d_tag |-> W8(0), d_un |-> W8(0)])
W32(n, little) == IF little THEN W4(n) ELSE Rev(W4(n))
HashBytes(little) == W32(1, little) \o W32(2, little) \o W32(1, little) \o W32(0, little) \o W32(0, little)

\* names: ".t" twice (duplicate), ".t" is a prefix of ".tx"; ".d" prefix of ".dy" and ".ds"
SecList ==
    << NullSec, Sec(<<46, 115, 104>>, 3, <<>>), Sec(<<46, 100, 115>>, 3, <<0, 97, 98, 0>>) >> \o
    (IF c.dy THEN << [Sec(<<46, 100, 121>>, 11, SymBytes(c.class, c.little)) EXCEPT !.link = 2, !.entsize = CSize("sym", c.class)] >> ELSE <<>>) \o
    (IF c.sy THEN << [Sec(<<46, 115, 121>>, 2, SymBytes(c.class, c.little)) EXCEPT !.link = 2, !.entsize = CSize("sym", c.class)] >> ELSE <<>>) \o
    << Sec(<<46, 116, 120>>, 1, <<1, 2, 3>>) >> \o
    (IF c.dn THEN << [Sec(<<46, 100>>, 6, DynBytes(c.class, c.little)) EXCEPT !.entsize = CSize("dyn", c.class), !.link = 2] >>
     ELSE IF c.pd THEN << Sec(<<46, 100, 98>>, 1, DynBytes(c.class, c.little)) >> ELSE <<>>) \o
    (IF c.hs THEN << [Sec(<<46, 104>>, 5, HashBytes(c.little)) EXCEPT !.link = 3, !.entsize = 4] >> ELSE <<>>) \o
    << Sec(<<46, 116>>, 1, <<9>>), Sec(<<46, 255, 254>>, 9, Zeros(CSize("rel", c.class))), Sec(<<46, 116>>, 7, <<>>) >>
\* the sweep objects are ONE constant object (built once) with two header fields overwritten
RichSecs ==
    << NullSec, Sec(<<46, 115, 104>>, 3, <<>>), Sec(<<46, 100, 115>>, 3, <<0, 97, 98, 0>>),
       [Sec(<<46, 100, 121>>, 11, SymBytes(64, TRUE)) EXCEPT !.link = 2, !.entsize = CSize("sym", 64)],
       [Sec(<<46, 115, 121>>, 2, SymBytes(64, TRUE)) EXCEPT !.link = 2, !.entsize = CSize("sym", 64)],
       Sec(<<46, 116, 120>>, 1, <<1, 2, 3>>),
       [Sec(<<46, 100>>, 6, DynBytes(64, TRUE)) EXCEPT !.entsize = CSize("dyn", 64), !.link = 2],
       [Sec(<<46, 104>>, 5, HashBytes(TRUE)) EXCEPT !.link = 3, !.entsize = 4],
       Sec(<<46, 116>>, 1, <<9>>) >>
RichBase == BuildObj(64, TRUE, RichSecs, << [type |-> 2, flags |-> 6, sec |-> 6, off |-> 0, filesz |-> 0, memsz |-> 0, align |-> 8] >>,
                     [DefaultOpts EXCEPT !.shstrndx = 1])
RichShoff == Val(SubSeq(RichBase, 41, 48))
PutB(b, off, w) == [i \in 1..Len(b) |-> IF i > off /\ i <= off + Len(w) THEN w[i - off] ELSE b[i]]
SweepFile(m, hz) == PutB(PutB(RichBase, 18, W2(m)), RichShoff + 7 * 64 + 56, W8(hz))

DynIdx == CHOOSE i \in 0..(Len(SecList) - 1) : SecList[i + 1].type = 6 \/ SecList[i + 1].name = <<46, 100, 98>>
SegList == IF c.pd THEN << [type |-> 2, flags |-> 6, sec |-> DynIdx, off |-> 0, filesz |-> 0, memsz |-> 0, align |-> 8] >> ELSE <<>>

FileB == BuildObj(c.class, c.little, SecList, SegList, [DefaultOpts EXCEPT !.shstrndx = 1, !.early = c.little])
f == F(FileB)
eb == Open(f, "Any")
N == Len(SecList)

NameSet == { SecList[i].name : i \in 2..N }
QNames == { n \in (NameSet \cup { SubSeq(n, 1, Len(n) - 1) : n \in NameSet } \cup { Append(n, 120) : n \in NameSet }
                   \cup {<<46, 122>>}) : Len(n) > 0 /\ IsUtf8(n) }
FirstNamed(n) == LET hits == { i \in 0..(N - 1) : SecList[i + 1].name = n } IN IF hits = {} THEN -1 ELSE CHOOSE i \in hits : \A j \in hits : i <= j
Views == << <<"section_data_as_strtab", 3>>, <<"section_data_as_rels", 9>>, <<"section_data_as_relas", 4>>, <<"section_data_as_notes", 7>> >>

Prop_C20 ==
    LET cd == CommonData(f, eb)
        st == SymTab(f, eb, SHT_SYMTAB) ds == SymTab(f, eb, SHT_DYNSYM) dn == Dynamic(f, eb, FALSE)
    IN /\ eb.ok /\ cd.ok /\ NSh(eb) = N
       \* one-pass discovery = targeted accessors
       /\ (IF c.sy THEN st.out = "ok" /\ cd.symtab = st.sym /\ cd.symtab_strs = st.str ELSE st.out = "none" /\ cd.symtab = <<>> /\ cd.symtab_strs = <<>>)
       /\ (IF c.dy THEN ds.out = "ok" /\ cd.dynsyms = ds.sym /\ cd.dynsyms_strs = ds.str ELSE ds.out = "none" /\ cd.dynsyms = <<>>)
       /\ (IF c.dn THEN dn.out = "ok" /\ cd.dynamic.start = dn.start /\ cd.dynamic.len = dn.len
           ELSE /\ dn.out = "none"                               \* the targeted accessor has no PT_DYNAMIC fallback when sections exist
                /\ (IF c.pd THEN cd.dynamic # <<>> /\ FSub(f, cd.dynamic.start, cd.dynamic.len) = DynBytes(c.class, c.little)
                    ELSE cd.dynamic = <<>>))
       /\ (cd.sysv_hash # <<>>) = c.hs /\ cd.gnu_hash = <<>>
       \* through the section = through the segment
       /\ (c.pd /\ c.dn) => (LET p == PhdrAt(f, eb, 0) IN Val(p["p_offset"]) = dn.start /\ Val(p["p_filesz"]) = dn.len)
       \* by name: the first section with exactly that name
       /\ \A n \in QNames : LET r == ShdrByName(f, eb, n, FALSE) i == FirstNamed(n)
                            IN IF i < 0 THEN r.out = "none" ELSE r.out = "ok" /\ r.index = i
       \* typed views are refused exactly when the type differs
       /\ \A i \in 0..(N - 1), v \in 1..4 :
            LET h == ShdrAt(f, eb, i) r == TypedSection(f, eb, h, Views[v][2], FALSE)
            IN IF SecList[i + 1].type = Views[v][2] THEN r.out = "ok" /\ FSub(f, r.start, r.len) = (IF i = 1 THEN ShStr(SecList) ELSE SecList[i + 1].data)
               ELSE r.out = "err" /\ r.kind = "UnexpectedSectionType"

RECURSIVE S2S(_)
S2S(S) == IF S = {} THEN <<>> ELSE LET x == CHOOSE y \in S : TRUE IN <<x>> \o S2S(S \ {x})
NameSeq == S2S(QNames)
Qs == << [name |-> "find_common_data", names |-> <<>>], [name |-> "symbol_table"], [name |-> "dynamic_symbol_table"], [name |-> "dynamic"] >> \o
      [i \in 1..Cardinality(QNames) |-> [name |-> "shdr_by_name", qname |-> NameSeq[i]]] \o
      [k \in 1..(4 * N) |-> [name |-> Views[((k - 1) % 4) + 1][1], shdr |-> ShdrAt(f, eb, (k - 1) \div 4)]]
\* (the sweep objects differ from each other in two header fields only: the first four queries are replayed)
IsSweep == c.mach # 62 \/ c.hz # 4
SweepQs == << [name |-> "find_common_data", names |-> <<>>], [name |-> "symbol_table"], [name |-> "dynamic_symbol_table"], [name |-> "dynamic"] >>
Emit == IF IsSweep THEN PrintT(ToJson(Session(SweepFile(c.mach, c.hz), "Any", SweepQs, [family |-> "mc-paths", mach |-> c.mach, hz |-> c.hz])))
        ELSE PrintT(ToJson(Session(FileB, "Any", Qs, [family |-> "mc-paths"])))
\* for the sweep objects: one-pass discovery designates every table the targeted accessors designate
Prop_Sweep ==
    LET ff == F(SweepFile(c.mach, c.hz))
        ee == Open(ff, "Any")
        cd == CommonData(ff, ee)
        st == SymTab(ff, ee, SHT_SYMTAB) ds == SymTab(ff, ee, SHT_DYNSYM) dn == Dynamic(ff, ee, FALSE)
    IN /\ ee.ok /\ cd.ok
       /\ SubSeq(ff.bytes, 19, 20) = W2(c.mach) /\ Val(ShdrAt(ff, ee, 7)["sh_entsize"]) = c.hz /\ ShdrAt(ff, ee, 7)["sh_type"] = W4(5)
       /\ st.out = "ok" /\ cd.symtab = st.sym /\ cd.symtab_strs = st.str
       /\ ds.out = "ok" /\ cd.dynsyms = ds.sym /\ cd.dynsyms_strs = ds.str
       /\ dn.out = "ok" /\ cd.dynamic.start = dn.start /\ cd.dynamic.len = dn.len
       /\ cd.sysv_hash # <<>> /\ cd.gnu_hash = <<>>
Inv == c.stage = 2 => ((IF IsSweep THEN Prop_Sweep ELSE Prop_C20) /\ Emit)
=============================================================================
