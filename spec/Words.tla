------------------------------- MODULE Words -------------------------------
(***************************************************************************)
(* Machine words for the rust-elf specification.                           *)
(*                                                                         *)
(* TLC integers are 32-bit and overflow is an evaluation error, while the  *)
(* parser works on u64 / usize / wrapping u32 values.  Every machine word  *)
(* is therefore a little-endian tuple of bytes (0..255): u8 -> 1 byte,     *)
(* u16 -> 2, u32/i32 -> 4, u64/i64/usize -> 8.  A little-endian read IS    *)
(* the sub-tuple of the buffer, a big-endian read is its reversal.         *)
(***************************************************************************)
EXTENDS Naturals, Integers, Sequences, FiniteSets, TLC, Bitwise

Huge == -1      \* "value does not fit in 31 bits"

Byte == 0..255
Rev(s)   == [i \in 1..Len(s) |-> s[Len(s) + 1 - i]]
Zeros(n) == [i \in 1..n |-> 0]
Ones(n)  == [i \in 1..n |-> 255]

ZExt(w, n) == IF n <= Len(w) THEN SubSeq(w, 1, n) ELSE w \o Zeros(n - Len(w))
SExt(w, n) == IF n <= Len(w) THEN SubSeq(w, 1, n)
              ELSE IF Len(w) > 0 /\ w[Len(w)] >= 128 THEN w \o Ones(n - Len(w))
              ELSE w \o Zeros(n - Len(w))

P256 == <<1, 256, 65536, 16777216>>

\* numeric value of a word when it is < 2^31, else Huge
Val(w) == LET n == Len(w)
              B(i) == IF i <= n THEN w[i] ELSE 0
          IN IF (\E i \in 5..n : w[i] # 0) \/ B(4) >= 128 THEN Huge
             ELSE B(1) + 256 * B(2) + 65536 * B(3) + 16777216 * B(4)

\* k-byte little-endian word of a natural n < 2^31
W(n, k) == [i \in 1..k |-> IF i <= 4 THEN (n \div P256[i]) % 256 ELSE 0]
W8(n) == W(n, 8)
W4(n) == W(n, 4)
W2(n) == W(n, 2)

IsZeroW(w) == \A i \in 1..Len(w) : w[i] = 0

\* compare equal-length words, most significant byte first
RECURSIVE CmpFrom(_, _, _)
CmpFrom(a, b, i) == IF i = 0 THEN 0
                    ELSE IF a[i] < b[i] THEN -1
                    ELSE IF a[i] > b[i] THEN 1
                    ELSE CmpFrom(a, b, i - 1)
CmpW(a, b) == LET n == IF Len(a) > Len(b) THEN Len(a) ELSE Len(b)
              IN CmpFrom(ZExt(a, n), ZExt(b, n), n)
LtW(a, b) == CmpW(a, b) < 0
LeW(a, b) == CmpW(a, b) <= 0

\* a + b on n-byte words: <<sum, carryOut>>
RECURSIVE AddFrom(_, _, _, _, _)
AddFrom(a, b, i, c, acc) ==
    IF i > Len(a) THEN <<acc, c>>
    ELSE LET s == a[i] + b[i] + c
         IN AddFrom(a, b, i + 1, s \div 256, Append(acc, s % 256))
AddW(a, b) == LET n == IF Len(a) > Len(b) THEN Len(a) ELSE Len(b)
              IN AddFrom(ZExt(a, n), ZExt(b, n), 1, 0, <<>>)

\* a - b on n-byte words (wrapping): <<diff, borrowOut>>
RECURSIVE SubFrom(_, _, _, _, _)
SubFrom(a, b, i, c, acc) ==
    IF i > Len(a) THEN <<acc, c>>
    ELSE LET s == a[i] - b[i] - c
         IN IF s < 0 THEN SubFrom(a, b, i + 1, 1, Append(acc, s + 256))
            ELSE SubFrom(a, b, i + 1, 0, Append(acc, s))
SubW(a, b) == LET n == IF Len(a) > Len(b) THEN Len(a) ELSE Len(b)
              IN SubFrom(ZExt(a, n), ZExt(b, n), 1, 0, <<>>)

\* bit k (0 = least significant) of a word; 0 beyond its width
P2 == <<1, 2, 4, 8, 16, 32, 64, 128>>
Bit(w, k) == IF k \div 8 + 1 > Len(w) THEN 0
             ELSE (w[k \div 8 + 1] \div P2[(k % 8) + 1]) % 2

\* value of bits [k, k+n) of a word, n <= 16
BitsAt(w, k, n) ==
    LET RECURSIVE F(_)
        F(j) == IF j = n THEN 0 ELSE Bit(w, k + j) + 2 * F(j + 1)
    IN F(0)

\* 16-bit limbs of a 4-byte word
Lo16(w) == w[1] + 256 * w[2]
Hi16(w) == w[3] + 256 * w[4]
FromLimbs(lo, hi) == <<lo % 256, lo \div 256, hi % 256, hi \div 256>>

\* u32 word modulo n, 0 < n < 2^30, by binary long division (MSB first)
ModW(w, n) ==
    LET RECURSIVE F(_, _)
        F(k, r) == IF k < 0 THEN r ELSE F(k - 1, ((2 * r) + Bit(w, k)) % n)
    IN F(8 * Len(w) - 1, 0)

\* u32 word divided by 2^s (s in 5..6 used by the bloom index) as a natural (< 2^27)
ShrVal(w, s) == (Hi16(w) * (65536 \div P2[s + 1])) + (Lo16(w) \div P2[s + 1])

=============================================================================
