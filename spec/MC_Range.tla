------------------------------ MODULE MC_Range ------------------------------
(* C03: on a minimal object followed by K payload bytes, section_data / typed views / segment_data
   with caller-made headers whose offset and size range over the boundary values
   {0,1,L-1,L,L+1,2^31,2^32-1,2^63,2^64-1} (L = file length): an ok result is exactly the designated
   range (minus the compression header), lies inside the file, NOBITS is empty, and a range that does
   not fit is an error -- never clamped. *)
EXTENDS MCFile
CONSTANTS K

Payload == [i \in 1..K |-> (i * 29 + 3) % 256]
\* payload starts with a valid little-endian Elf64_Chdr so that SHF_COMPRESSED sections at offset 64 parse
Chdr64 == <<1, 0, 0, 0, 0, 0, 0, 0, 100, 0, 0, 0, 0, 0, 0, 0, 8, 0, 0, 0, 0, 0, 0, 0>>
\* ... followed by bytes that look like a legacy ".zdebug" blob ("ZLIB" + big-endian size): contents are contents,
\* whatever they look like
Magic == <<90, 76, 73, 66, 0, 0, 0, 0, 0, 0, 0, 32>>
FileBytes == BuildObj(64, TRUE, <<>>, <<>>, DefaultOpts) \o Chdr64 \o Magic \o Payload
L == Len(FileBytes)
Big == { [i \in 1..8 |-> IF i = 4 THEN 128 ELSE 0],            \* 2^31
         [i \in 1..8 |-> IF i <= 4 THEN 255 ELSE 0],           \* 2^32-1
         [i \in 1..8 |-> IF i = 8 THEN 128 ELSE 0],            \* 2^63
         [i \in 1..8 |-> 255] }                                \* 2^64-1
Offs == {W8(0), W8(1), W8(64), W8(65), W8(88), W8(L - 1), W8(L), W8(L + 1)} \cup Big
Sizes == {W8(0), W8(1), W8(12), W8(23), W8(24), W8(25), W8(L - 88), W8(L - 64), W8(L - 63), W8(L)} \cup Big

VARIABLE c
\* the case is chosen by Next (not Init) so that TLC's worker threads, which have the large stack, evaluate it
Cases == { [k |-> "sec", type |-> t, comp |-> cp, off |-> o, size |-> s] :
                     t \in {1, 3, 7, 8, 9}, cp \in BOOLEAN, o \in Offs, s \in Sizes }
         \cup { [k |-> "seg", type |-> t, off |-> o, size |-> s, mem |-> m] :
                     t \in {1, 4}, o \in Offs, s \in Sizes, m \in {W8(0), W8(L + 7)} }
Init == c = [k |-> "init"]
Next == c.k = "init" /\ c' \in Cases

f == F(FileBytes)
eb == Open(f, "Any")
Hdr == IF c.k = "sec" THEN ShdrJ(W4(c.type), IF c.comp THEN W8(2048) ELSE W8(0), c.off, c.size, 0, 0, 4, 0)
       ELSE PhdrJ(c.type, c.off, c.size, c.mem, 4)
Fits == Val(c.off) # Huge /\ Val(c.size) # Huge /\ Val(c.off) <= L /\ Val(c.size) <= L /\ Val(c.off) + Val(c.size) <= L

Prop_C03 ==
    IF c.k = "sec"
    THEN LET d == SectionData(f, eb, Hdr)
         IN /\ c.type = 8 => (d.out = "ok" /\ d.len = 0)                                   \* NOBITS: empty
            /\ (c.type # 8 /\ ~Fits) => d.out = "err"                                      \* never clamped
            /\ (c.type # 8 /\ Fits /\ ~c.comp) => (d.out = "ok" /\ d.start = Val(c.off) /\ d.len = Val(c.size))
            /\ (c.type # 8 /\ d.out = "ok") =>
                 /\ d.start + d.len = Val(c.off) + Val(c.size)                              \* ends where the header says
                 /\ d.start + d.len <= L
                 /\ c.comp => d.start = Val(c.off) + 24
    ELSE LET d == SegmentData(f, Hdr)
         IN IF Fits THEN d.out = "ok" /\ d.start = Val(c.off) /\ d.len = Val(c.size)          \* p_filesz, not p_memsz
            ELSE d.out = "err"

Qs == IF c.k = "sec"
      THEN << [name |-> "section_data", shdr |-> Hdr], [name |-> "section_data_as_strtab", shdr |-> Hdr],
              [name |-> "section_data_as_notes", shdr |-> Hdr], [name |-> "section_data_as_rels", shdr |-> Hdr] >>
      ELSE << [name |-> "segment_data", phdr |-> Hdr], [name |-> "segment_data_as_notes", phdr |-> Hdr] >>
Emit == PrintT(ToJson(Session(FileBytes, "Any", Qs, [family |-> "mc-range"])))
Inv == c.k # "init" => (Prop_C03 /\ Emit)
=============================================================================
