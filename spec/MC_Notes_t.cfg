INIT Init
NEXT Next
INVARIANT Inv
CONSTANTS
 Aligns = {0, 1, 2, 4, 8, 3, 5, 16}
 MaxNotes = 2
 Cuts = {0, 1, 2, 5, 9}
CHECK_DEADLOCK FALSE
