INIT Init
NEXT Next
INVARIANT Inv
CONSTANTS
 NSym = 4
 NBucket = 2
 MaxCell = 4
CHECK_DEADLOCK FALSE
