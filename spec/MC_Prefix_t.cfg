INIT Init
NEXT Next
INVARIANT Inv
CONSTANTS
 Encodings = {1, 2, 3, 4, 5, 6, 7, 8, 9, 10, 11, 12, 13, 14, 15, 16}
CHECK_DEADLOCK FALSE
