------------------------------ MODULE MC_Notes ------------------------------
(* C14: note sections encoded from the ABI text (12-byte header of three 32-bit words for both
   classes; name; padding to the alignment; descriptor; padding) for every residue of namesz and
   descsz modulo the alignment; the operational NoteIterator model must yield exactly the encoded
   notes, in order, with exactly those byte ranges; truncated and garbage-extended sections yield
   the records that fit.  Cases are emitted for replay on the crate. *)
EXTENDS Note, Json
CONSTANTS Aligns, MaxNotes, Cuts

W32(n, little) == IF little THEN W4(n) ELSE Rev(W4(n))
PadLen(off, a) == IF a = 0 THEN 0 ELSE (a - (off % a)) % a
Fill(n, base) == [i \in 1..n |-> base + i]

\* kinds: "plain" (name bytes 'A'.., type 5), "nul" (NUL-terminated name), "abitag", "buildid"
NoteSpec(kind, ns, ds) ==
    CASE kind = "plain"   -> [name |-> Fill(ns, 64), desc |-> Fill(ds, 200), type |-> 5]
      [] kind = "nul"     -> [name |-> IF ns = 0 THEN <<>> ELSE Append(Fill(ns - 1, 64), 0), desc |-> Fill(ds, 200), type |-> 7]
      [] kind = "abitag"  -> [name |-> GNU, desc |-> Fill(16, 16), type |-> 1]
      [] kind = "buildid" -> [name |-> GNU, desc |-> Fill(ds, 100), type |-> 3]
      \* the other note types of the GNU owner are plain notes to the crate: NT_GNU_HWCAP (2), NT_GNU_PROPERTY_TYPE_0 (5)
      [] kind = "gnuhw"   -> [name |-> GNU, desc |-> Fill(ds, 100), type |-> 2]
      [] kind = "gnuprop" -> [name |-> GNU, desc |-> Fill(ds, 100), type |-> 5]

\* encode a sequence of note specs; returns [bytes, marks] with marks[i] = [nameStart, namesz, descStart, descsz]
RECURSIVE EncFrom(_, _, _, _, _, _)
EncFrom(ns, i, a, little, bytes, marks) ==
    IF i > Len(ns) THEN [bytes |-> bytes, marks |-> marks]
    ELSE LET n == ns[i]
             hdr == W32(Len(n.name), little) \o W32(Len(n.desc), little) \o W32(n.type, little)
             b1 == bytes \o hdr
             nameStart == Len(b1)
             b2 == b1 \o n.name
             b3 == b2 \o Zeros(PadLen(Len(b2), a))
             descStart == Len(b3)
             b4 == b3 \o n.desc
             b5 == b4 \o Zeros(PadLen(Len(b4), a))
         IN EncFrom(ns, i + 1, a, little, b5,
                    Append(marks, [nameStart |-> nameStart, namesz |-> Len(n.name), descStart |-> descStart,
                                   descsz |-> Len(n.desc), type |-> n.type, fitEnd |-> Len(b4)]))

Kinds == {"plain", "nul", "abitag", "buildid", "gnuhw", "gnuprop"}
VARIABLE c
Lim(a) == IF a \in {0, 3, 5, 16} THEN 3 ELSE a + 1
\* two stages so that TLC's workers share the enumeration: Init picks the shape, Next the sizes
Init ==
    \E a \in Aligns, l \in BOOLEAN, cl \in {32, 64}, n \in 0..MaxNotes :
      /\ (cl = 64 => l)                                    \* the class does not influence notes: one slice of the space
      /\ \E k1 \in (IF n = 0 THEN {"plain"} ELSE Kinds), k2 \in (IF n < 2 THEN {"plain"} ELSE {"plain", "buildid"}) :
           c = [stage |-> 1, a |-> a, little |-> l, class |-> cl, n |-> n, k1 |-> k1, k2 |-> k2,
                ns1 |-> 0, ds1 |-> 0, ns2 |-> 0, ds2 |-> 0, cut |-> 0, junk |-> 0]
Next ==
    /\ c.stage = 1
    /\ \E ns1 \in (IF c.n = 0 \/ c.k1 \in {"abitag", "buildid", "gnuhw", "gnuprop"} THEN {0} ELSE 0..Lim(c.a)),
          ds1 \in (IF c.n = 0 \/ c.k1 = "abitag" THEN {0} ELSE 0..Lim(c.a)),
          ns2 \in (IF c.n < 2 \/ c.k2 = "buildid" THEN {0} ELSE 0..Lim(c.a)),
          ds2 \in (IF c.n < 2 THEN {0} ELSE 0..Lim(c.a)),
          cut \in (IF c.n = 0 THEN {0} ELSE Cuts) :
         \E j \in (IF cut > 0 \/ c.class = 64 THEN {0} ELSE {0, 3}) :
            c' = [c EXCEPT !.stage = 2, !.ns1 = ns1, !.ds1 = ds1, !.ns2 = ns2, !.ds2 = ds2, !.cut = cut, !.junk = j]

Specs == IF c.n = 0 THEN <<>> ELSE IF c.n = 1 THEN <<NoteSpec(c.k1, c.ns1, c.ds1)>>
         ELSE <<NoteSpec(c.k1, c.ns1, c.ds1), NoteSpec(c.k2, c.ns2, c.ds2)>>
LayA == IF c.a = 0 THEN 4 ELSE c.a                      \* a zero alignment cannot lay anything out: use 4 for the bytes
Enc == EncFrom(Specs, 1, LayA, c.little, <<>>, <<>>)
Buf == LET b == Enc.bytes
           cutb == IF c.cut >= Len(b) THEN <<>> ELSE SubSeq(b, 1, Len(b) - c.cut)
       IN cutb \o Fill(c.junk, 249)
Got == Notes(c.little, W8(c.a), Buf)

\* ground truth: the encoded notes whose name and descriptor lie inside the (possibly cut) buffer; with
\* trailing junk of 3 bytes no further header fits
Truth == LET m == Enc.marks
             fits == { i \in 1..Len(m) : m[i].fitEnd <= Len(Buf) - c.junk }
         IN IF c.a = 0 THEN <<>> ELSE [i \in 1..Cardinality(fits) |-> m[i]]
Prop_C14 ==
    /\ Len(Got) = Len(Truth)
    /\ \A i \in 1..Len(Truth) :
         LET g == Got[i] m == Truth[i]
         IN CASE g.k = "any" -> /\ g.name = RangeJ(m.nameStart, m.namesz) /\ g.desc = RangeJ(m.descStart, m.descsz)
                                /\ Val(g.n_type) = m.type
              [] g.k = "buildid" -> g.desc = RangeJ(m.descStart, m.descsz) /\ m.type = 3
              [] g.k = "abitag" -> m.type = 1 /\ g.f["os"] = (IF c.little THEN <<17, 18, 19, 20>> ELSE <<20, 19, 18, 17>>)
    /\ DeclNotesOk(c.little, W8(c.a), Buf, Got)
Emit == PrintT(ToJson([op |-> "notes", class |-> c.class, es |-> IF c.little THEN "LE" ELSE "AnyB", align |-> W8(c.a), buf |-> Buf,
                       exp |-> [out |-> "ok", n |-> Len(Got), items |-> Got]]))
Inv == c.stage = 2 => (Prop_C14 /\ Emit)
=============================================================================
