------------------------------- MODULE Trace -------------------------------
(***************************************************************************)
(* Trace validation: a trace recorded from the real crate (one JSON event  *)
(* per public call: arguments + projected result) is a behaviour of the    *)
(* specification iff every event's result is the one the specification     *)
(* computes in the state reached so far.  TLC is the judge; the harness    *)
(* that recorded the trace contains no oracle.                             *)
(***************************************************************************)
EXTENDS FileSem, Abi, Features, AbiRef, Iter, Bulk, Json, IOUtils

Rec == ndJsonDeserialize(IOEnv.TRACE)

TargetLittle == TRUE          \* the build target of this image (reported in the session event)

VARIABLES l,        \* next trace line
          slots,    \* slot name -> line of the buffer event that last defined it
          tbl,      \* the lazily parsed table under test: [ty, class, little, buf] or <<>>
          ht,       \* names of the symbol table the current hash table was built for (set by hash_wf)
          fh,       \* the open slice-parser handle: [f |-> file, eb |-> handle] or <<>> (closed / open failed)
          sth,      \* the open stream-parser handle: [f, eb, openl, hadfault] or <<>>
          consts,   \* C19: the exported constants seen so far in this session, name -> 8-byte word
          sv,       \* the symbol version table under test: [class, little, versym, need, def, model] or <<>>
          nbad      \* number of events the specification does not allow

vars == <<l, slots, tbl, ht, fh, sth, consts, sv, nbad>>

Has(e, k) == k \in DOMAIN e
IsLittle(es) == CASE es \in {"LE", "AnyL"} -> TRUE
                  [] es \in {"BE", "AnyB"} -> FALSE
                  [] es = "Native" -> TargetLittle

\* buffer argument `k` of event e: inline bytes, or a reference to a slot
Buf(e, k) == IF Has(e, k) THEN e[k] ELSE Rec[slots[e[k \o "slot"]]].bytes

Out(e) == e.res.out

---------------------------------------------------------------------------
\* C04
OkReadInt(e) ==
    LET little == IsLittle(e.es)
        r == ReadInt(Buf(e, "buf"), e.off, e.w, little)
    IN /\ e.res.little = little /\ e.res.big = ~little
       /\ e.res.off = r.off
       /\ IF r.ok THEN Out(e) = "ok" /\ e.res.val = r.val ELSE Out(e) = "err"

\* C02 (random bytes are an encoding of some value: decode, compare all public fields and the
\* advanced offset, and check the ABI round trip on the bytes that carry information)
OkParseAt(e) ==
    LET little == IsLittle(e.es)
        buf == Buf(e, "buf")
        r == ParseAt(e.ty, e.class, little, buf, e.off)
    IN /\ e.res.size = SizeFor(e.ty, e.class)
       /\ e.res.size = CSize(e.ty, e.class)
       /\ IF r.ok THEN /\ Out(e) = "ok"
                       /\ e.res.f = Pub(r.f)
                       /\ e.res.off = W8(r.off)
                       /\ r.off = Val(e.off) + CSize(e.ty, e.class)
          ELSE Out(e) = "err"

OkAcc(e) ==
    LET v == e.v IN
    CASE e.what = "st_info"  -> e.res.r = <<ST_BIND(v[1]), ST_TYPE(v[1]), 0, 0>>
      [] e.what = "st_other" -> e.res.r = <<ST_VISIBILITY(v[1]), 0, 0, 0>>
      [] e.what = "st_shndx" -> e.res.r = <<IF v = <<0, 0>> THEN 1 ELSE 0, 0, 0, 0>>
      [] e.what = "versym"   -> e.res.r = << Val(VER_NDX(v)), IF VER_HIDDEN(v) THEN 1 ELSE 0,
                                             IF Val(VER_NDX(v)) = 0 THEN 1 ELSE 0,
                                             IF Val(VER_NDX(v)) = 1 THEN 1 ELSE 0 >>

\* an optional walk over a second, identical iterator object: judged against the item list of the event
\* (which is itself judged against the specification by the event's own rule)
WalkFieldOk(e) ==
    (Has(e, "walk") /\ e.res.n = Len(e.res.items)) =>
        LET At(i) == IF e.op \in {"verdef_iter", "verneed_iter", "verdaux_iter", "vernaux_iter"}
                     THEN e.res.items[i].f ELSE e.res.items[i]
        IN Has(e.res, "walk") /\ e.res.walk.out = "ok" /\ WalkOk(At, Len(e.res.items), e.walk, e.res.walk.obs)

\* C09: the table state machine
OkTblStep(e) ==
    LET n == TblLen(tbl.ty, tbl.class, tbl.buf)
    IN CASE e.op = "tbl_len"   -> Out(e) = "ok" /\ e.res.n = W8(n)
         [] e.op = "tbl_empty" -> Out(e) = "ok" /\ e.res.b = (n = 0)
         [] e.op = "tbl_get"   ->
              LET r == TblGet(tbl.ty, tbl.class, tbl.little, tbl.buf, e.arg)
              IN /\ r.ok <=> (Val(e.arg) # Huge /\ Val(e.arg) < n)         \* get(i) ok iff i < len
                 /\ IF r.ok THEN Out(e) = "ok" /\ e.res.f = Pub(r.f) ELSE Out(e) = "err"
         [] e.op = "tbl_walk" ->               \* the provided Iterator methods on one iterator of the table (Iter.tla)
              LET At(i) == Pub(TblGet(tbl.ty, tbl.class, tbl.little, tbl.buf, W8(i - 1)).f)
              IN Out(e) = "ok" /\ WalkOk(At, n, e.arg, e.res.obs)
         [] e.op \in {"tbl_iter", "tbl_into_iter"} ->
              LET items == IterAll(tbl.ty, tbl.class, tbl.little, tbl.buf)
              IN /\ Len(items) = n
                 /\ Out(e) = "ok" /\ e.res.n = n
                 /\ e.res.items = [i \in 1..n |-> Pub(items[i])]
                 /\ \A i \in 1..n : items[i] = TblGet(tbl.ty, tbl.class, tbl.little, tbl.buf, W8(i - 1)).f

OkIter(e) ==
    LET little == IsLittle(e.es)
        buf == Buf(e, "buf")
        items == IterAll(e.ty, e.class, little, buf)
    IN /\ Len(items) = Len(buf) \div CSize(e.ty, e.class)      \* exactly the whole entries
       /\ Out(e) = "ok" /\ e.res.n = Len(items)
       /\ e.res.items = [i \in 1..Len(items) |-> Pub(items[i])]
       /\ WalkFieldOk(e)

\* C15 on a table given by description (StrTab.tla: GetRawS)
OkStrS(e) ==
    LET b == Rec[slots[e.bufslot]]
        r == GetRawS(b, e.off)
    IN IF ~WellDescribed(b) THEN TRUE
       ELSE IF e.op = "str_get" /\ ~AsciiS(b) THEN TRUE
       ELSE IF r.ok THEN Out(e) = "ok" /\ e.res.s = RangeJ(r.start, r.len) /\ e.res.n = r.len
       ELSE Out(e) = "err"
\* C15
OkStr(e) ==
    IF Has(e, "bufslot") /\ ~Has(Rec[slots[e.bufslot]], "bytes") THEN OkStrS(e) ELSE
    LET buf == Buf(e, "buf")
        raw == GetRaw(buf, e.off)
        r == IF e.op = "str_get_raw" THEN raw ELSE Get(buf, e.off)
    IN /\ DeclRaw(buf, e.off, raw)
       /\ IF r.ok THEN Out(e) = "ok" /\ e.res.s = RangeJ(r.start, r.len) /\ e.res.n = r.len
          ELSE Out(e) = "err"

\* C10 (ident) and the file header tail (C02)
OkIdent(e) ==
    LET buf == Buf(e, "buf")
        r == ParseIdent(e.es, buf)
    IN /\ IdentResOk(e.es, buf, e.res)
       /\ r.ok <=> Out(e) = "ok"
       /\ r.ok => e.res.osabi = r.osabi /\ e.res.abiversion = r.abiversion

OkTail(e) ==
    LET little == IsLittle(e.es)
        r == ParseNat("tail", e.class, little, Buf(e, "buf"), 0)
    IN IF r.ok THEN /\ Out(e) = "ok"
                    /\ \A k \in DOMAIN r.f : e.res.f[k] = r.f[k]
                    /\ e.res.f.class = e.class /\ e.res.f.little = little
                    /\ e.res.f.osabi = e.osabi /\ e.res.f.abiversion = e.abiversion
       ELSE Out(e) = "err"

\* C14
OkNotes(e) ==
    LET little == IsLittle(e.es)
        buf == Buf(e, "buf")
        items == Notes(little, e.align, buf)
    IN /\ DeclNotesOk(little, e.align, buf, items)
       /\ Len(items) <= Len(buf)                                         \* C16: at most one item per byte
       /\ Out(e) = "ok"
       /\ IF InScopeC14(little, e.align, buf) \/ IsZeroW(e.align) \/ Val(e.align) = Huge \/ Val(e.align) > 16777216
          THEN e.res.n = Len(items) /\ e.res.items = items
          \* a GNU ABI-tag note without its 16-byte descriptor is outside C14: whatever comes before it is judged
          ELSE e.res.n >= Len(items) /\ SubSeq(e.res.items, 1, Len(items)) = items
       /\ WalkFieldOk(e)

\* C11 / C12
OkHashFn(e) ==
    IF e.op = "sysv_hash" THEN /\ SysvHash(e.name) = ElfHashRef(e.name)
                               /\ Out(e) = "ok" /\ e.res.h = ElfHashRef(e.name)
    ELSE /\ GnuHash(e.name) = Djb2Ref(e.name)
         /\ Out(e) = "ok" /\ e.res.h = Djb2Ref(e.name)

OkFind(e) ==
    LET little == IsLittle(e.es)
        sy == Buf(e, "sym") st == Buf(e, "str")
    IN /\ Out(e) \in {"ok", "none", "err"}
       /\ Sound(e.class, little, sy, st, e.name, e.res)                   \* any table bytes: a hit is symtab[idx] and has the name
       /\ e.wf => (LET present == \E i \in e.first..(Len(ht) - 1) : ht[i + 1] = e.name
                   IN IF present THEN Out(e) = "ok" ELSE Out(e) = "none")  \* complete on a well-formed table
\* agreement with the operational model beyond what C11/C12 state (which of two equal names, None vs Err on a
\* corrupted table) is reported as drift, not judged
DriftFind(e) ==
    LET little == IsLittle(e.es)
        hb == Buf(e, "hash") sy == Buf(e, "sym") st == Buf(e, "str")
        r == IF e.op = "sysv_find" THEN SysvFind(e.class, little, hb, sy, st, e.name)
             ELSE GnuFind(e.class, little, hb, sy, st, e.name)
    IN Has(e, "hdr_edit") \/ Has(e, "big") \/ (Out(e) = r.out /\ (r.out = "ok" => (e.res.idx = r.idx /\ e.res.sym = r.sym)))
\* (hdr_edit: the caller wrote to the table's public header fields before the lookup; only totality and soundness are judged)
\* a table the generator claims well formed must satisfy the format's own well-formedness predicate
GenOkFind(e) ==
    e.wf => IF e.kind = "sysv" THEN SysvWellFormed(e.class, IsLittle(e.es), Buf(e, "hash"), Buf(e, "sym"), Buf(e, "str"))
            ELSE GnuWellFormed(e.class, IsLittle(e.es), Buf(e, "hash"), Buf(e, "sym"), Buf(e, "str"))

\* version-record iterators (C13 building blocks, C16 bounds)
OkVerIter(e) ==
    LET little == IsLittle(e.es)
        buf == Buf(e, "buf")
        kind == CASE e.op = "verdef_iter" -> "verdef" [] e.op = "verneed_iter" -> "verneed"
                  [] e.op = "verdaux_iter" -> "verdaux" [] e.op = "vernaux_iter" -> "vernaux"
        cnt == IF kind \in {"verdaux", "vernaux"} THEN ZExt(SubSeq(e.count, 1, 2), 8) ELSE e.count   \* count: u16
        items == VIter(kind, little, buf, cnt, e.start)
        AuxOf(i) == LET a == VAll(AuxKind(kind), little, buf, items[i].aux, <<>>)
                    IN [j \in 1..Len(a) |-> Pub(a[j].f)]
    IN /\ Len(items) <= Len(buf)                                          \* C16: bounded by the bytes ...
       /\ (Val(cnt) # Huge => Len(items) <= Val(cnt))                      \* ... and by the declared count
       /\ Out(e) = "ok" /\ e.res.n = Len(items)
       /\ Len(e.res.items) = Len(items)
       /\ \A i \in 1..Len(items) :
            /\ e.res.items[i].f = Pub(items[i].f)
            /\ kind \in {"verdef", "verneed"} =>
                 /\ e.res.items[i].aux = AuxOf(i)
                 /\ Len(AuxOf(i)) <= Val(items[i].aux.count)
       /\ WalkFieldOk(e)

SvOf(e) == [class |-> e.class, little |-> IsLittle(e.es), versym |-> e.versym,
            need |-> IF Has(e, "need") THEN [buf |-> e.need.buf, count |-> e.need.count, str |-> e.need.str] ELSE <<>>,
            def |-> IF Has(e, "def") THEN [buf |-> e.def.buf, count |-> e.def.count, str |-> e.def.str] ELSE <<>>,
            model |-> IF Has(e, "model") THEN e.model ELSE <<>>]

OkSymver(e) ==
    IF e.op = "symver_req"
    THEN LET r == GetRequirement(sv.class, sv.little, sv.versym, sv.need, e.i)
         IN /\ Out(e) = r.out
            /\ r.out = "ok" => /\ e.res.file = r.file /\ e.res.name = r.name /\ e.res.hash = r.hash
                               /\ e.res.flags = r.flags /\ e.res.hidden = r.hidden
            /\ (sv.model # <<>> /\ sv.need # <<>>) => ReqOk(sv.model, Val(e.i), e.res, sv.need.str)
            /\ (sv.need = <<>>) => Out(e) = "none"
    ELSE LET r == GetDefinition(sv.class, sv.little, sv.versym, sv.def, e.i)
         IN /\ Out(e) = r.out
            /\ r.out = "ok" => /\ e.res.hash = r.hash /\ e.res.flags = r.flags /\ e.res.hidden = r.hidden
                               /\ e.res.names = r.names /\ e.res.n = Len(r.names)
            /\ (sv.model # <<>> /\ sv.def # <<>>) => DefOk(sv.model, Val(e.i), e.res, sv.def.str)
            /\ (sv.def = <<>>) => Out(e) = "none"

\* ---- whole files: ElfBytes sessions (C03 C05 C07 C10 C18 C20) -----------------------------
\* the file a slot holds: dense bytes or a sparse description
FileOf(slot) == LET b == Rec[slots[slot]]
                IN IF Has(b, "bytes") THEN [len |-> Len(b.bytes), dense |-> TRUE, bytes |-> b.bytes]
                   ELSE [len |-> b.len, dense |-> FALSE, fill |-> b.fill, chunks |-> b.chunks]

OkOpen(e) == OpenOk(FileOf(e.fileslot), e, FALSE)
\* (after a caller's write to the handle's public `ehdr` field only totality is JUDGED: no listed property says
\*  whether an accessor reads the header again or remembers what it saw at open.  The handle record nevertheless
\*  carries the written class / order / e_shstrndx - ElfFile.tla: EditHandle - and agreement with that model of
\*  today's code is reported as `drift`, which no check counts.)
OkQ(e) == IF fh = <<>> THEN Out(e) = "closed" ELSE IF fh.edited THEN TRUE ELSE QueryOk(fh.f, fh.eb, e, FALSE)

\* C18: the same query on the complete file (slot "full", of which the opened file is a prefix) gives
\* the same answer unless the prefix gives an error -- a statement about the specification's own
\* semantics, evaluated on every recorded query; conformance (OkQ) transfers it to the code
PrefixRel(e) ==
    (fh # <<>> /\ ~fh.edited /\ "full" \in DOMAIN slots) =>
        LET ff == FileOf("full")
            o == Open(ff, Rec[fh.openl].es)
            po == QOut(fh.f, fh.eb, e, FALSE)
        IN po = "err" \/
           (/\ o.ok
            /\ QOut(ff, o, e, FALSE) = po
            /\ po = "ok" => QDet(ff, o, e, FALSE) = QDet(fh.f, fh.eb, e, FALSE))

\* the same for the stream parser
PrefixRelS(e) ==
    (sth # <<>> /\ ~sth.edited /\ "full" \in DOMAIN slots /\ ~e.faulted /\ ~sth.hadfault) =>
        LET ff == FileOf("full")
            o == Open(ff, Rec[sth.openl].es)
            po == QOut(sth.f, sth.eb, e, TRUE)
        IN po = "err" \/
           (/\ o.ok
            /\ QOut(ff, o, e, TRUE) = po
            /\ po = "ok" => QDet(ff, o, e, TRUE) = QDet(sth.f, sth.eb, e, TRUE))

\* ---- ElfStream sessions (C07 C08 C17) ---------------------------------------------------------
\* StreamAbs: what the properties demand of one stream call, given the file, the faults the reader
\* injected during the call (e.faulted) and before it (sth.hadfault)
AllocBound(e, f) == e.maxalloc <= 8 * f.len + 16384
OkSOpen(e) ==
    LET f == FileOf(e.fileslot)
    IN IF e.faulted THEN Out(e) = "err"                                   \* C17: the failure surfaces
       ELSE OpenOk(f, e, TRUE)                                            \* C07: same outcome and headers as the slice parser
LazySOpen(e) == ReadsWithin(e.io, OpenRanges(FileOf(e.fileslot), e.es))
\* C07 is one-directional outside its exact set: the stream parser may refuse what the slice parser refuses
\* (today it does not validate .dynamic's sh_entsize; doing so would still satisfy every listed property)
StricterLikeSlice(e) == e.name = "dynamic" /\ Out(e) = "err" /\ QOut(sth.f, sth.eb, e, FALSE) = "err"
OkSQ(e) ==
    IF sth = <<>> THEN Out(e) = "closed"
    ELSE IF sth.edited THEN TRUE
    ELSE IF e.faulted THEN Out(e) = "err"
    ELSE IF sth.hadfault THEN (Out(e) = "err" \/ QueryOk(sth.f, sth.eb, e, TRUE))   \* C17: no residue
    ELSE (QueryOk(sth.f, sth.eb, e, TRUE) \/ StricterLikeSlice(e)) /\ RelC07(sth.f, sth.eb, e)
\* a long history in one event (Bulk.tla): n distinct caller-made ranges, all inside the file
OkSBulk(e) ==
    IF sth = <<>> THEN Out(e) = "closed"
    ELSE IF Has(e, "size0") /\ e.size0 > 0
         THEN Out(e) = "ok" /\ e.res.nok = BulkNok(sth.f.len, e.n, e.m, e.size0)
    ELSE LET B(i) == ByteAt(sth.f, i)
             x == BulkExp(B, sth.f.len, e.n, e.m)
         IN Out(e) = "ok" /\ e.res.nok = x[1] /\ e.res.sum = x[2]
LazySQ(e) == (sth # <<>> /\ ~sth.edited) => ReadsWithin(e.io, QRanges(sth.f, sth.eb, e, TRUE))

\* ---- C19: exported ABI definitions ------------------------------------------------------------
RefOf(name) == IF name \in DOMAIN AbiRef THEN AbiRef[name]
               ELSE IF name \in DOMAIN AbiRefAlias THEN AbiRef[AbiRefAlias[name]]
               ELSE <<>>                                                  \* the reference does not define it
OkAbiConst(e) == RefOf(e.name) # <<>> => e.val = RefOf(e.name)

EhdrLayout(class) == << <<"e_ident", 16, "u">> >> \o
                     [i \in 1..Len(CLayout("tail", class)) |->
                        LET x == CLayout("tail", class)[i] IN IF x[1] = "version" THEN <<"e_version", x[2], x[3]>> ELSE x]
OkAbiStruct(e) ==
    LET lay == IF e.ty = "ehdr" THEN EhdrLayout(e.class) ELSE CLayout(e.ty, e.class)
    IN /\ e.size = SumW(lay, 1)
       /\ DOMAIN e.offsets = {lay[i][1] : i \in 1..Len(lay)}
       /\ \A i \in 1..Len(lay) : e.offsets[lay[i][1]] = COff(lay, i)

SymbolicFns == {"e_osabi_to_str", "e_type_to_str", "e_machine_to_str", "sh_type_to_str", "p_type_to_str",
                "st_symtype_to_str", "st_bind_to_str", "st_vis_to_str", "ch_type_to_str", "d_tag_to_str"}
NamesValue(s, arg) == s \in DOMAIN consts /\ consts[s] = arg
OkToStr(e) == (e.fn \in SymbolicFns /\ e.res.out = "ok") => NamesValue(e.res.s, e.arg)
OkToString(e) == NamesValue(e.s, e.arg) \/ e.has_dec \/ e.has_hex

---------------------------------------------------------------------------
\* does the specification allow event e in the current state?
Allowed(e) ==
    CASE e.op \in {"session", "buf", "tbl_new", "symver_new", "hash_wf", "ehdr_edit"} -> TRUE
      [] e.op = "misc" -> Out(e) = "ok"          \* beyond the listed properties: Display/Debug/source and the prose helpers are total
      [] e.op = "notes" -> OkNotes(e)
      [] e.op \in {"sysv_hash", "gnu_hash"} -> OkHashFn(e)
      [] e.op \in {"sysv_find", "gnu_find"} -> OkFind(e)
      [] e.op \in {"verdef_iter", "verneed_iter", "verdaux_iter", "vernaux_iter"} -> OkVerIter(e)
      [] e.op \in {"symver_req", "symver_def"} -> OkSymver(e)
      [] e.op = "abi_const" -> OkAbiConst(e)
      [] e.op = "abi_struct" -> OkAbiStruct(e)
      [] e.op = "to_str" -> OkToStr(e)
      [] e.op = "to_string" -> OkToString(e)
      [] e.op = "feature" -> FeatureOk(e)
      [] e.op = "feature_core" -> FeatureCoreOk(e)
      [] e.op = "sopen" -> OkSOpen(e)
      [] e.op = "sq" -> OkSQ(e) /\ (Out(e) # "closed" => PrefixRelS(e))
      [] e.op = "sbulk" -> OkSBulk(e)
      [] e.op = "open" -> OkOpen(e)
      [] e.op = "q" -> OkQ(e) /\ (Out(e) # "closed" => PrefixRel(e))
      [] e.op = "read_int" -> OkReadInt(e)
      [] e.op = "parse_at" -> OkParseAt(e)
      [] e.op = "acc" -> OkAcc(e)
      [] e.op \in {"tbl_len", "tbl_empty", "tbl_get", "tbl_iter", "tbl_into_iter", "tbl_walk"} -> OkTblStep(e)
      [] e.op = "iter" -> OkIter(e)
      [] e.op \in {"str_get_raw", "str_get"} -> OkStr(e)
      [] e.op = "ident" -> OkIdent(e)
      [] e.op = "tail" -> OkTail(e)
      [] OTHER -> FALSE

\* C01 / C06 riders on every event that has a result: no panic, no allocation (slice parser)
NoPanic(e) == Has(e, "res") => (Out(e) # "panic" /\ (Has(e.res, "walk") => e.res.walk.out # "panic"))
NoAlloc(e) == (Has(e, "allocs") /\ e.op \notin {"sopen", "sq", "sbulk"}) => e.allocs = 0
\* C08 riders on stream calls: bounded allocation, lazy reads
StreamBound(e) == CASE e.op = "sopen" -> AllocBound(e, FileOf(e.fileslot))
                    [] e.op = "sq" -> (sth # <<>> => AllocBound(e, sth.f))
                    [] OTHER -> TRUE
StreamLazy(e) == CASE e.op = "sopen" -> LazySOpen(e) [] e.op = "sq" -> LazySQ(e) [] OTHER -> TRUE

GenOk(e) == IF e.op = "hash_wf" THEN GenOkFind(e) ELSE TRUE
\* C16: at most one item per input byte, never more records than the declared count (judged on the recorded
\* result alone, independently of the operational model)
StepsOk(e) ==
    CASE e.op \in {"verdef_iter", "verneed_iter"} ->
            Out(e) = "ok" => (e.res.n <= Len(Buf(e, "buf")) /\ (Val(e.count) # Huge => e.res.n <= Val(e.count)))
      [] e.op \in {"verdaux_iter", "vernaux_iter"} ->
            Out(e) = "ok" => (e.res.n <= Len(Buf(e, "buf")) /\ e.res.n <= Val(ZExt(SubSeq(e.count, 1, 2), 8)))
      [] e.op \in {"notes", "iter"} -> Out(e) = "ok" => e.res.n <= Len(Buf(e, "buf"))
      [] OTHER -> TRUE
DriftOk(e) == IF e.op \in {"sysv_find", "gnu_find"} THEN DriftFind(e)
              ELSE IF e.op = "q" /\ fh # <<>> /\ fh.edited THEN QueryOk(fh.f, fh.eb, e, FALSE)
              ELSE IF e.op = "sq" /\ sth # <<>> /\ sth.edited /\ ~e.faulted /\ ~sth.hadfault THEN QueryOk(sth.f, sth.eb, e, TRUE)
              ELSE TRUE

Tag(e) == IF e.op \in {"q", "sq"} THEN e.op \o ":" \o e.name ELSE e.op

Init == l = 1 /\ slots = [x \in {} |-> 0] /\ tbl = <<>> /\ ht = <<>> /\ fh = <<>> /\ sth = <<>> /\ consts = [x \in {} |-> <<>>] /\ sv = <<>> /\ nbad = 0

Step ==
    /\ l <= Len(Rec)
    /\ LET e == Rec[l]
           pbad == ~NoPanic(e)
           vbad == IF pbad THEN TRUE ELSE ~Allowed(e)
           abad == ~NoAlloc(e)
       IN /\ nbad' = IF vbad \/ pbad \/ abad THEN nbad + 1 ELSE nbad
          /\ IF vbad THEN PrintT(<<"MISMATCH", l, "value", Tag(e)>>) ELSE TRUE
          /\ IF pbad THEN PrintT(<<"MISMATCH", l, "panic", Tag(e)>>) ELSE TRUE
          /\ IF abad THEN PrintT(<<"MISMATCH", l, "alloc", Tag(e)>>) ELSE TRUE
          /\ IF ~pbad /\ ~StreamBound(e) THEN PrintT(<<"MISMATCH", l, "bound", Tag(e)>>) ELSE TRUE
          /\ IF ~pbad /\ ~StreamLazy(e) THEN PrintT(<<"MISMATCH", l, "lazy", Tag(e)>>) ELSE TRUE
          /\ IF ~pbad /\ ~StepsOk(e) THEN PrintT(<<"MISMATCH", l, "steps", Tag(e)>>) ELSE TRUE
          /\ IF ~pbad /\ ~DriftOk(e) THEN PrintT(<<"MISMATCH", l, "drift", Tag(e)>>) ELSE TRUE
          /\ IF ~GenOk(e) THEN PrintT(<<"MISMATCH", l, "gen", Tag(e)>>) ELSE TRUE
          /\ slots' = CASE e.op = "session" -> [x \in {} |-> 0]
                        [] e.op = "buf" -> [x \in (DOMAIN slots) \cup {e.slot} |->
                                               IF x = e.slot THEN l ELSE slots[x]]
                        [] OTHER -> slots
          /\ tbl' = CASE e.op = "session" -> <<>>
                      [] e.op = "tbl_new" -> [ty |-> e.ty, class |-> e.class, little |-> IsLittle(e.es),
                                              buf |-> Buf(e, "buf")]
                      [] OTHER -> tbl
          /\ ht' = CASE e.op = "session" -> <<>>
                     [] e.op = "hash_wf" ->
                          LET sy == Buf(e, "sym") st == Buf(e, "str")
                          IN [i \in 1..TblLen("sym", e.class, sy) |-> SymName(e.class, IsLittle(e.es), sy, st, i - 1)]
                     [] OTHER -> ht
          /\ fh' = CASE e.op = "session" -> <<>>
                     [] e.op = "open" -> (LET f == FileOf(e.fileslot) o == Open(f, e.es)
                                         IN IF o.ok THEN [f |-> f, eb |-> o, openl |-> l, edited |-> FALSE] ELSE <<>>)
                     [] e.op = "ehdr_edit" -> IF fh = <<>> THEN fh
                                              ELSE [fh EXCEPT !.edited = TRUE,
                                                              !.eb = EditHandle(@, IF Has(e, "class") THEN e.class ELSE 0,
                                                                                Has(e, "flip_order") /\ Rec[fh.openl].es = "Any",
                                                                                IF Has(e, "e_shstrndx") THEN SubSeq(e.e_shstrndx, 1, 2) ELSE <<>>)]
                     [] OTHER -> fh
          /\ sth' = CASE e.op = "session" -> <<>>
                     [] e.op = "sopen" -> (LET f == FileOf(e.fileslot) o == Open(f, e.es)
                                          IN IF o.ok /\ Out(e) = "ok" THEN [f |-> f, eb |-> o, openl |-> l, hadfault |-> FALSE, edited |-> FALSE] ELSE <<>>)
                     [] e.op = "ehdr_edit" -> IF sth = <<>> THEN sth
                                              ELSE [sth EXCEPT !.edited = TRUE,
                                                               !.eb = EditHandle(@, IF Has(e, "class") THEN e.class ELSE 0,
                                                                                 Has(e, "flip_order") /\ Rec[sth.openl].es = "Any",
                                                                                 IF Has(e, "e_shstrndx") THEN SubSeq(e.e_shstrndx, 1, 2) ELSE <<>>)]
                     [] e.op = "sq" -> IF sth # <<>> /\ e.faulted THEN [sth EXCEPT !.hadfault = TRUE] ELSE sth
                     [] OTHER -> sth
          /\ consts' = CASE e.op = "session" -> [x \in {} |-> <<>>]
                         [] e.op = "abi_const" -> [x \in (DOMAIN consts) \cup {e.name} |-> IF x = e.name THEN e.val ELSE consts[x]]
                         [] OTHER -> consts
          /\ sv' = CASE e.op = "session" -> <<>>
                     [] e.op = "symver_new" -> SvOf(e)
                     [] OTHER -> sv
    /\ l' = l + 1

Spec == Init /\ [][Step]_vars

\* acceptance: every line consumed (diameter = lines + initial state); mismatches are printed
TraceAccepted ==
    LET d == TLCGet("stats").diameter
    IN IF d - 1 = Len(Rec) THEN PrintT(<<"TRACE-CONSUMED", Len(Rec)>>)
       ELSE PrintT(<<"TRACE-STUCK-AT", d>>) /\ FALSE
=============================================================================
