------------------------------- MODULE Stream -------------------------------
(***************************************************************************)
(* The stream parser's CachingReader (elf_stream.rs:678-731) as a state    *)
(* machine at the granularity of its critical sections, with the           *)
(* environment (the caller's Read+Seek) as independently enabled actions:  *)
(* chunked reads, Interrupted, read/seek errors, premature EOF.            *)
(*                                                                         *)
(*   load_bytes(s..e):  CacheHit | RejectPastEnd | Seek ; Alloc ;          *)
(*                      (ReadChunk | ReadInterrupted)* ; Insert            *)
(*                      with SeekFail / ReadErr / ReadEof aborting it      *)
(*                                                                         *)
(* Properties: CacheSound (the cache only ever holds fully read ranges),   *)
(* ResultOk (C07 exact answers without faults, C17 error on a faulted      *)
(* call and error-or-true-answer afterwards), AllocBound and Lazy (C08).   *)
(* Variant # "code" switches on one deliberately wrong design (negative    *)
(* controls: each must violate the invariant named next to it).            *)
(***************************************************************************)
EXTENDS Naturals, Sequences, FiniteSets, TLC, Json

CONSTANTS FileLen,      \* number of payload cells in the stream
          Ranges,       \* the (start, end) ranges clients may ask for
          MaxCalls, MaxFaults, MaxIntr,
          Variant       \* "code" | "insert_before_read" | "key_by_start" | "no_seek" | "read_not_exact"
                        \*        | "no_length_guard" | "eager_read" | "lazy_seek" | "evict_on_pressure"

File == [i \in 1..FileLen |-> (i * 37 + 5) % 251]
Slice(s, e) == [i \in 1..(e - s) |-> File[s + i]]         \* bytes [s, e), needs e <= FileLen

VARIABLES cache,      \* (s,e) -> bytes
          pc,         \* idle | seek | alloc | read | insert | ret
          cur,        \* range being loaded
          buf,        \* bytes read so far for cur
          pos,        \* reader cursor
          bel,        \* where the parser believes the cursor is (only the "lazy_seek" design consults it)
          res,        \* result of the call in progress / last call
          faulted,    \* a hard fault was delivered during the current call
          nfaults, nintr, ncalls,
          heapMax,    \* ghost: largest allocation of the current call
          io,         \* ghost: offsets read during the current call
          pend,       \* ranges the accessor in progress still has to load (symbol_table: symtab then strtab, ...)
          need,       \* ranges the accessor will fetch with get_bytes once everything is loaded
          panicked,   \* get_bytes did not find a range that load_bytes had reported loaded (the expect() in :703-707)
          hist        \* ghost: the behaviour so far, for replay on the implementation

vars == <<cache, pc, cur, buf, pos, bel, res, faulted, nfaults, nintr, ncalls, heapMax, io, pend, need, panicked, hist>>
view == <<cache, pc, cur, buf, pos, bel, res, faulted, nfaults, nintr, ncalls, heapMax, io, pend, need, panicked>>

Init == /\ cache = [x \in {} |-> <<>>] /\ pc = "idle" /\ cur = <<0, 0>> /\ buf = <<>> /\ pos = 0 /\ bel = 0
        /\ res = [ok |-> TRUE, data |-> <<>>] /\ faulted = FALSE /\ nfaults = 0 /\ nintr = 0 /\ ncalls = 0
        /\ heapMax = 0 /\ io = {} /\ pend = <<>> /\ need = {} /\ panicked = FALSE /\ hist = <<>>

Step(s) == hist' = IF hist = <<>> THEN hist ELSE [hist EXCEPT ![Len(hist)].steps = Append(@, s)]
NoStep == UNCHANGED hist

Hit(r) == IF Variant = "key_by_start" THEN \E k \in DOMAIN cache : k[1] = r[1] ELSE r \in DOMAIN cache
HitData(r) == IF Variant = "key_by_start" THEN cache[CHOOSE k \in DOMAIN cache : k[1] = r[1]] ELSE cache[r]

\* a client call enters load_bytes
\* where a load of range r starts: cache hit, rejected past the end, or the seek
Enter(r) == IF Hit(r) THEN "ret" ELSE IF r[2] > FileLen /\ Variant # "no_length_guard" THEN "ret"
            ELSE IF Variant = "lazy_seek" /\ bel = r[1] THEN "alloc" ELSE "seek"
EnterRes(r) == IF Hit(r) THEN [ok |-> TRUE, data |-> HitData(r)]
               ELSE IF r[2] > FileLen /\ Variant # "no_length_guard" THEN [ok |-> FALSE, data |-> <<>>] ELSE res

\* an accessor that loads two ranges before using both (symbol_table, symbol_version_table, ...)
Call2(r1, r2) ==
    /\ pc = "idle" /\ ncalls < MaxCalls
    /\ cur' = r1 /\ faulted' = FALSE /\ heapMax' = 0 /\ io' = {} /\ buf' = <<>>
    /\ pend' = <<r2>> /\ need' = {r1, r2}
    /\ hist' = Append(hist, [r |-> r1, r2 |-> r2, steps |-> <<>>])
    /\ res' = EnterRes(r1) /\ pc' = Enter(r1)
    /\ UNCHANGED <<cache, pos, bel, nfaults, nintr, ncalls, panicked>>
\* the first load succeeded: go on with the next range of the same accessor
Chain ==
    /\ pc = "ret" /\ pend # <<>> /\ res.ok
    /\ cur' = Head(pend) /\ pend' = Tail(pend) /\ buf' = <<>>
    /\ res' = EnterRes(Head(pend)) /\ pc' = Enter(Head(pend)) /\ NoStep
    /\ UNCHANGED <<cache, pos, bel, faulted, nfaults, nintr, ncalls, heapMax, io, need, panicked>>

Call(r) ==
    /\ pc = "idle" /\ ncalls < MaxCalls
    /\ cur' = r /\ faulted' = FALSE /\ heapMax' = 0 /\ io' = {} /\ buf' = <<>>
    /\ pend' = <<>> /\ need' = {r} /\ UNCHANGED panicked
    /\ hist' = Append(hist, [r |-> r, steps |-> <<>>])
    /\ IF Hit(r) THEN /\ res' = [ok |-> TRUE, data |-> HitData(r)] /\ pc' = "ret"              \* :711-713
       ELSE IF r[2] > FileLen /\ Variant # "no_length_guard"
            THEN /\ res' = [ok |-> FALSE, data |-> <<>>] /\ pc' = "ret"                          \* :716-719
            ELSE /\ res' = res
                 \* the lazy-seek design skips the seek when it believes the cursor is already there
                 /\ pc' = IF Variant = "lazy_seek" /\ bel = r[1] THEN "alloc" ELSE "seek"
    /\ UNCHANGED <<cache, pos, bel, nfaults, nintr, ncalls>>

SeekOk == /\ pc = "seek"
          /\ pos' = IF Variant = "no_seek" THEN pos ELSE cur[1]                                   \* :721
          /\ pc' = "alloc" /\ Step("seek_ok")
          /\ UNCHANGED <<pend, need, panicked, bel, cache, cur, buf, res, faulted, nfaults, nintr, ncalls, heapMax, io>>
SeekFail == /\ pc = "seek" /\ nfaults < MaxFaults
            /\ nfaults' = nfaults + 1 /\ faulted' = TRUE
            /\ res' = [ok |-> FALSE, data |-> <<>>] /\ pc' = "ret" /\ Step("seek_fail")
            /\ UNCHANGED <<pend, need, panicked, bel, cache, cur, buf, pos, nintr, ncalls, heapMax, io>>

Alloc == /\ pc = "alloc"
         /\ heapMax' = cur[2] - cur[1]                                                             \* :722 vec![0; len]
         /\ buf' = <<>>
         /\ cache' = IF Variant = "insert_before_read"
                     THEN [k \in (DOMAIN cache) \cup {cur} |-> IF k = cur THEN [i \in 1..(cur[2] - cur[1]) |-> 0] ELSE cache[k]]
                     ELSE cache
         /\ pc' = IF cur[2] = cur[1] THEN "insert" ELSE "read"
         /\ NoStep
         /\ UNCHANGED <<pend, need, panicked, bel, cur, pos, res, faulted, nfaults, nintr, ncalls, io>>

Remaining == (cur[2] - cur[1]) - Len(buf)
\* read_exact: the reader hands over k bytes, 1 <= k <= remaining (and no more than the stream holds)
ReadChunk(k) ==
    /\ pc = "read" /\ k >= 1 /\ k <= Remaining /\ pos + k <= FileLen
    /\ buf' = buf \o Slice(pos, pos + k)
    /\ io' = io \cup ((pos + 1)..(pos + k))
    /\ pos' = pos + k
    /\ pc' = IF k = Remaining \/ Variant = "read_not_exact" THEN "insert" ELSE "read"
    /\ Step(k)
    /\ UNCHANGED <<pend, need, panicked, bel, cache, cur, res, faulted, nfaults, nintr, ncalls, heapMax>>
\* the eager design reads the rest of the stream along with the first chunk
EagerRead ==
    /\ Variant = "eager_read" /\ pc = "read" /\ io = {} /\ Remaining >= 1 /\ pos + Remaining <= FileLen
    /\ buf' = buf \o Slice(pos, pos + Remaining)
    /\ io' = 1..FileLen
    /\ pos' = FileLen /\ pc' = "insert" /\ Step(Remaining)
    /\ UNCHANGED <<pend, need, panicked, bel, cache, cur, res, faulted, nfaults, nintr, ncalls, heapMax>>
ReadInterrupted ==                                   \* ErrorKind::Interrupted: read_exact retries
    /\ pc = "read" /\ nintr < MaxIntr
    /\ nintr' = nintr + 1 /\ Step("intr")
    /\ UNCHANGED <<pend, need, panicked, bel, cache, pc, cur, buf, pos, res, faulted, nfaults, ncalls, heapMax, io>>
ReadErr ==
    /\ pc = "read" /\ nfaults < MaxFaults
    /\ nfaults' = nfaults + 1 /\ faulted' = TRUE
    /\ res' = [ok |-> FALSE, data |-> <<>>] /\ pc' = "ret" /\ Step("err")                         \* '?' on read_exact
    /\ UNCHANGED <<pend, need, panicked, bel, cache, cur, buf, pos, nintr, ncalls, heapMax, io>>
ReadEof ==                                           \* Ok(0) before the range is complete -> UnexpectedEof
    /\ pc = "read" /\ (nfaults < MaxFaults \/ pos >= FileLen)
    /\ nfaults' = IF pos >= FileLen THEN nfaults ELSE nfaults + 1
    /\ faulted' = TRUE
    /\ res' = [ok |-> FALSE, data |-> <<>>] /\ pc' = "ret" /\ Step("eof")
    /\ UNCHANGED <<pend, need, panicked, bel, cache, cur, buf, pos, nintr, ncalls, heapMax, io>>

RECURSIVE SumLen(_)
SumLen(S) == IF S = {} THEN 0 ELSE LET k == CHOOSE x \in S : TRUE IN Len(cache[k]) + SumLen(S \ {k})
CachedBytes == SumLen(DOMAIN cache)
Insert == /\ pc = "insert"
          /\ cache' = IF Variant = "evict_on_pressure" /\ CachedBytes + Len(buf) > FileLen
                      THEN [k \in {cur} |-> buf]                                               \* "start over" under pressure
                      ELSE [k \in (DOMAIN cache) \cup {cur} |-> IF k = cur THEN buf ELSE cache[k]]     \* :724
          /\ res' = [ok |-> TRUE, data |-> buf] /\ pc' = "ret" /\ NoStep
          /\ bel' = cur[2]                                                                         \* position after a complete read
          /\ UNCHANGED <<pend, need, panicked, cur, buf, pos, faulted, nfaults, nintr, ncalls, heapMax, io>>

\* the accessor returns: after a failed load at once, otherwise after fetching every range it loaded (get_bytes)
Return == /\ pc = "ret" /\ (pend = <<>> \/ ~res.ok)
          /\ panicked' = (panicked \/ (res.ok /\ \E r \in need : ~Hit(r)))
          /\ pend' = <<>> /\ UNCHANGED need
          /\ ncalls' = ncalls + 1 /\ pc' = "idle"
          /\ hist' = [hist EXCEPT ![Len(hist)] = @ @@ [ok |-> res.ok, faulted |-> faulted]]
          /\ UNCHANGED <<bel, cache, cur, buf, pos, res, faulted, nfaults, nintr, heapMax, io>>

Next == \/ \E r \in Ranges : Call(r)
        \/ \E r1, r2 \in Ranges : r1 # r2 /\ Call2(r1, r2)
        \/ Chain
        \/ SeekOk \/ SeekFail \/ Alloc
        \/ \E k \in 1..FileLen : ReadChunk(k)
        \/ EagerRead \/ ReadInterrupted \/ ReadErr \/ ReadEof \/ Insert \/ Return

Spec == Init /\ [][Next]_vars /\ WF_vars(Next)

-----------------------------------------------------------------------------
InFile(r) == r[2] <= FileLen
\* the cache only ever holds fully read ranges
CacheSound == \A k \in DOMAIN cache : InFile(k) /\ cache[k] = Slice(k[1], k[2])
\* what a finished call may return
ResultOk == pc = "ret" =>
              /\ faulted => ~res.ok                                          \* C17: the failure surfaces
              /\ res.ok => (InFile(cur) /\ res.data = Slice(cur[1], cur[2]))  \* never fabricated data
              /\ (~faulted /\ InFile(cur)) => res.ok                          \* C07: legal reader behaviour is invisible
              /\ ~InFile(cur) => ~res.ok                                      \* oversized requests are errors
AllocBound == heapMax <= FileLen                                              \* C08
Lazy == io \subseteq UNION { ((r[1] + 1)..r[2]) : r \in need }                       \* C08: only designated bytes are read
TypeOk == pc \in {"idle", "seek", "alloc", "read", "insert", "ret"} /\ Len(buf) <= FileLen + 2

\* every call eventually returns (no livelock on Interrupted within its budget)
Terminates == (pc # "idle") ~> (pc = "idle")

Emit == (pc = "idle" /\ ncalls = MaxCalls) => PrintT(ToJson([file |-> File, calls |-> hist]))
\* a range reported loaded is still there when the accessor fetches it (C08: the stream parser never panics)
NoPanic == ~panicked
Inv == TypeOk /\ CacheSound /\ ResultOk /\ AllocBound /\ Lazy /\ NoPanic
InvEmit == Inv /\ Emit
=============================================================================
