INIT Init
NEXT Next
INVARIANT InvEmit
VIEW view
CONSTANTS
 FileLen = 3
 Ranges <- RangesQ
 MaxCalls = 3
 MaxFaults = 1
 MaxIntr = 1
 Variant = "code"
CHECK_DEADLOCK FALSE
