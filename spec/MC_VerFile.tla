----------------------------- MODULE MC_VerFile -----------------------------
(* C13 through ElfBytes: the version models of MC_SymVer (VerBuild.tla) placed inside an object
   built from the ABI (Build.tla) - .dynsym, .gnu.version, .gnu.version_r and .gnu.version_d, where
   the requirements and the definitions name DIFFERENT string tables through their sh_link (the
   definitions' table holds the same names two bytes further on, so an offset looked up in the wrong
   table gives another name).  TLC checks that what the file-level accessor designates is what was
   encoded and that every symbol's requirement / definition is the model's; every object is emitted
   as a session (open + symbol_version_table with one requirement and one definition query per
   symbol, each with the predicted answer) and replayed on the crate. *)
EXTENDS MCFile, VerBuild
CONSTANTS Encs, Layouts, Orders          \* Orders: section orders (1: sym, need, def; 2: def, need, sym)

\* the definitions' own string table: "\0x\0" + "a\0b\0..." (name k at NmOff(k) + 2)
StrTabD == <<0, 120, 0>> \o Tail(StrTabB)

VARIABLE c
Init == c = [stage |-> 0]
Next == \/ c.stage = 0 /\ \E k \in Encs, lay \in Layouts, nn \in 0..2, nd \in 0..2, ord \in Orders :
                             c' = [stage |-> 1, enc |-> k, lay |-> lay, nn |-> nn, nd |-> nd, ord |-> ord, ib |-> 0]
        \/ c.stage = 1 /\ \E na1 \in (IF c.nn >= 1 THEN 0..2 ELSE {0}), na2 \in (IF c.nn >= 2 THEN 1..2 ELSE {0}),
                             dn1 \in (IF c.nd >= 1 THEN 1..2 ELSE {0}), dn2 \in (IF c.nd >= 2 THEN 1..2 ELSE {0}) :
                             c' = [c EXCEPT !.stage = 2] @@ [na1 |-> na1, na2 |-> na2, dn1 |-> dn1, dn2 |-> dn2]

Class == VEncOf(c.enc)[1]
L == VEncOf(c.enc)[2]
VsSeq == LET P == VsPool(c.nd, c.na1 + c.na2, c.ib)
             RECURSIVE S(_)
             S(X) == IF X = {} THEN <<>> ELSE LET x == CHOOSE y \in X : TRUE IN <<x>> \o S(X \ {x})
         IN S(P)
M == Model(c.nn, c.na1, c.na2, c.nd, c.dn1, c.dn2, VsSeq, c.ib)
NSyms == Len(VsSeq)
NeedB == EncNeeds(M, c.lay, L)
DefB == EncDefs(M, c.lay, L, 2)
VersymB == VCat([i \in 1..NSyms |-> VWd2(VsSeq[i], L)], NSyms)
SymB == VCat([i \in 1..NSyms |->
                Enc("sym", Class, L, [st_name |-> W4(0), st_value |-> W8(16 * i), st_size |-> W8(0),
                                      st_info |-> <<IF i = 1 THEN 0 ELSE 18>>, st_other |-> <<0>>, st_shndx |-> W2(IF i = 1 THEN 0 ELSE 1)])], NSyms)

\* sections: 0 null, 1 names, 2 ".sa" (requirements' strings), 3 ".sb" (definitions' strings), 4 .dynsym, then the
\* version sections in the chosen order
VerSecs ==
    LET vs == [Sec(<<46, 103, 118>>, 1879048191, VersymB) EXCEPT !.link = 4, !.entsize = 2, !.align = 2]
        vr == [Sec(<<46, 103, 114>>, 1879048190, NeedB) EXCEPT !.link = 2, !.info = c.nn, !.align = 4]
        vd == [Sec(<<46, 103, 100>>, 1879048189, DefB) EXCEPT !.link = 3, !.info = c.nd, !.align = 4]
        r == IF c.nn > 0 THEN <<vr>> ELSE <<>>
        d == IF c.nd > 0 THEN <<vd>> ELSE <<>>
    IN IF c.ord = 1 THEN <<vs>> \o r \o d ELSE d \o r \o <<vs>>
SecList == << NullSec, Sec(<<46, 115, 104>>, 3, <<>>), Sec(<<46, 115, 97>>, 3, StrTabB), Sec(<<46, 115, 98>>, 3, StrTabD),
              [Sec(<<46, 100, 121>>, 11, SymB) EXCEPT !.link = 2, !.entsize = CSize("sym", Class), !.info = 1] >> \o VerSecs
FileB == BuildObj(Class, L, SecList, <<>>, [DefaultOpts EXCEPT !.shstrndx = 1])
f == F(FileB)
eb == Open(f, "Any")
T == SymVerTable(f, eb)
A == SvArgs(f, eb, T)

QList == [k \in 1..(2 * (NSyms + 2)) |-> [k |-> IF k % 2 = 1 THEN "req" ELSE "def", i |-> W8((k - 1) \div 2)]]
Ans(q) == SvOne(f, A, T, q, FALSE)

Prop_C13 ==
    /\ eb.ok /\ T.out = "ok"
    \* the accessor designates exactly the encoded sections, each with the string table its own sh_link names
    /\ A.versym = VersymB
    /\ (c.nn > 0 => A.need.buf = NeedB /\ A.need.str = StrTabB) /\ (c.nn = 0 => A.need = <<>>)
    /\ (c.nd > 0 => A.def.buf = DefB /\ A.def.str = StrTabD) /\ (c.nd = 0 => A.def = <<>>)
    \* and every answer is the model's
    /\ \A i \in 0..(NSyms + 1) :
         /\ (c.nn > 0 => ReqOk(M, i, GetRequirement(Class, L, A.versym, A.need, W8(i)), StrTabB))
         /\ (c.nd > 0 => DefOk(M, i, GetDefinition(Class, L, A.versym, A.def, W8(i)), StrTabD))

Emit == PrintT(ToJson([ops |->
          << [op |-> "session", family |-> "mc-verfile"],
             [op |-> "buf", slot |-> "file", bytes |-> FileB],
             [op |-> "open", es |-> "Any", fileslot |-> "file", exp |-> OpenExp(f, "Any")],
             [op |-> "q", name |-> "symbol_version_table",
              qs |-> [k \in 1..Len(QList) |-> <<QList[k].k, QList[k].i>>],
              exp |-> [out |-> "ok", qs |-> [k \in 1..Len(QList) |-> [k |-> QList[k].k, i |-> QList[k].i, r |-> Ans(QList[k])]]]] >>]))
Inv == c.stage = 2 => (Prop_C13 /\ Emit)
=============================================================================
