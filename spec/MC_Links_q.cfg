INIT Init
NEXT Next
INVARIANT Inv
CONSTANTS
 NSym = 3
 NBucket = 1
 MaxCell = 3
CHECK_DEADLOCK FALSE
