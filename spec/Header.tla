------------------------------- MODULE Header -------------------------------
(* e_ident parsing and byte-order specifications (file.rs:124-166, endian.rs:150-194). *)
EXTENDS Words

ELFMAGIC == <<127, 69, 76, 70>>

\* the set of EI_DATA values a byte-order specification accepts
Accepts(spec) == CASE spec = "LE" -> {1} [] spec = "BE" -> {2} [] spec = "Any" -> {1, 2}
                   [] spec = "Native" -> {1}        \* little-endian build target

\* operational: parse_ident::<E> in the code's order of checks
ParseIdent(spec, buf) ==
    IF Len(buf) < 16 THEN [ok |-> FALSE, kind |-> "SliceReadError"]
    ELSE IF SubSeq(buf, 1, 4) # ELFMAGIC THEN [ok |-> FALSE, kind |-> "BadMagic", payload |-> SubSeq(buf, 1, 4)]
    ELSE IF buf[7] # 1 THEN [ok |-> FALSE, kind |-> "UnsupportedVersion", payload |-> <<W8(buf[7]), W8(1)>>]
    ELSE IF buf[5] \notin {1, 2} THEN [ok |-> FALSE, kind |-> "UnsupportedElfClass", payload |-> <<buf[5]>>]
    ELSE IF buf[6] \notin Accepts(spec)
         THEN [ok |-> FALSE, kind |-> "UnsupportedElfEndianness", payload |-> <<buf[6]>>]
    ELSE [ok |-> TRUE, little |-> (buf[6] = 1), class |-> IF buf[5] = 1 THEN 32 ELSE 64,
          osabi |-> <<buf[8]>>, abiversion |-> <<buf[9]>>]

\* declarative C10: the defects of a 16-byte ident, and what must be reported when there is one
Defects(spec, buf) ==
    (IF SubSeq(buf, 1, 4) # ELFMAGIC THEN {"BadMagic"} ELSE {}) \cup
    (IF buf[5] \notin {1, 2} THEN {"UnsupportedElfClass"} ELSE {}) \cup
    (IF buf[7] # 1 THEN {"UnsupportedVersion"} ELSE {}) \cup
    (IF buf[6] \notin Accepts(spec) THEN {"UnsupportedElfEndianness"} ELSE {})

PayloadOf(kind, buf) ==
    CASE kind = "BadMagic" -> SubSeq(buf, 1, 4)
      [] kind = "UnsupportedElfClass" -> <<buf[5]>>
      [] kind = "UnsupportedVersion" -> <<W8(buf[7]), W8(1)>>
      [] kind = "UnsupportedElfEndianness" -> <<buf[6]>>

\* does result record res (JSON shape: out, kind, payload | little, class, ...) satisfy C10 for this ident?
IdentResOk(spec, buf, res) ==
    IF Len(buf) < 16 THEN res.out = "err"
    ELSE LET d == Defects(spec, buf)
         IN IF d = {} THEN /\ res.out = "ok"
                           /\ res.little = (buf[6] = 1)
                           /\ res.class = (IF buf[5] = 1 THEN 32 ELSE 64)
            ELSE /\ res.out = "err"
                 /\ Cardinality(d) = 1 =>
                      LET k == CHOOSE x \in d : TRUE
                      IN res.kind = k /\ res.payload = PayloadOf(k, buf)
=============================================================================
