----------------------------- MODULE MC_Stream -----------------------------
EXTENDS Stream
\* ranges that share a start, share an end, are empty, touch the end, and reach past the end
RangesQ == {<<0, 2>>, <<0, 3>>, <<1, 3>>, <<2, 2>>, <<1, 5>>}
RangesT == {<<0, 2>>, <<0, 4>>, <<1, 4>>, <<2, 4>>, <<3, 3>>, <<1, 2>>, <<2, 6>>, <<4, 4>>}
=============================================================================
