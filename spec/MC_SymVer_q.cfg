INIT Init
NEXT Next
INVARIANT Inv
CONSTANTS
 Encs = {2, 3}
 Layouts = {1, 2}
 IdxBases = {0, 32510}
CHECK_DEADLOCK FALSE
