------------------------------ MODULE StreamInd ------------------------------
(***************************************************************************)
(* Inductive proof (Apalache) of CacheSound / ResultOk for the stream       *)
(* parser's cache design, for ANY number of calls, faults and chunkings and *)
(* ANY contents of a stream of MAXN cells -- the unbounded-in-time          *)
(* complement of the bounded TLC runs of ../Stream.tla.                     *)
(*                                                                         *)
(* Byte strings are functions over the fixed offset set 0..MAXN-1 (cells    *)
(* outside a range are don't-care), which keeps the spec inside the         *)
(* fragment Apalache handles well (no unbounded sequences).                 *)
(*   apalache-mc check --init=Init    --inv=IndInv --length=0 StreamInd.tla *)
(*   apalache-mc check --init=IndInit --inv=IndInv --length=1 StreamInd.tla *)
(*   apalache-mc check --init=IndInit --inv=Safety --length=0 StreamInd.tla *)
(***************************************************************************)
EXTENDS Integers

MAXN == 5
Offs == 0..4                      \* 0..MAXN-1
Ends == 0..7                      \* ranges may reach past the end of the stream
Cells == 0..3                     \* cell values (symbolic contents)

VARIABLES
    \* @type: Int -> Int;
    file,
    \* @type: Set(<<Int, Int>>);
    keys,       \* DOMAIN of the cache
    \* @type: <<Int, Int>> -> (Int -> Int);
    cache,
    \* @type: Str;
    pc,
    \* @type: <<Int, Int>>;
    cur,
    \* @type: Int -> Int;
    buf,
    \* @type: Int;
    got,        \* cells of cur read so far
    \* @type: Int;
    pos,
    \* @type: Bool;
    resok,
    \* @type: Int -> Int;
    resdata,
    \* @type: Bool;
    faulted

\* @type: Set(<<Int, Int>>);
AllKeys == { <<s, e>> : s \in Offs, e \in Ends }
\* @type: Int -> Int;
Zero == [i \in Offs |-> 0]
\* @type: (<<Int, Int>>) => Bool;
InFile(r) == r[1] <= r[2] /\ r[2] <= MAXN
\* data d agrees with the stream on [s, e)
\* @type: (Int -> Int, Int, Int) => Bool;
Agrees(d, s, e) == \A i \in Offs : (s <= i /\ i < e) => d[i] = file[i]

Init ==
    /\ file \in [Offs -> Cells]
    /\ keys = {} /\ cache = [k \in AllKeys |-> Zero]
    /\ pc = "idle" /\ cur = <<0, 0>> /\ buf = Zero /\ got = 0 /\ pos = 0
    /\ resok = TRUE /\ resdata = Zero /\ faulted = FALSE

\* @type: (<<Int, Int>>) => Bool;
Call(r) ==
    /\ pc = "idle" /\ r[1] <= r[2]
    /\ cur' = r /\ faulted' = FALSE /\ buf' = Zero /\ got' = 0
    /\ IF r \in keys THEN /\ resok' = TRUE /\ resdata' = cache[r] /\ pc' = "ret"
       ELSE IF r[2] > MAXN THEN /\ resok' = FALSE /\ resdata' = Zero /\ pc' = "ret"
       ELSE /\ resok' = resok /\ resdata' = resdata /\ pc' = "seek"
    /\ UNCHANGED <<file, keys, cache, pos>>
SeekOk == /\ pc = "seek" /\ pos' = cur[1] /\ pc' = "alloc"
          /\ UNCHANGED <<file, keys, cache, cur, buf, got, resok, resdata, faulted>>
SeekFail == /\ pc = "seek" /\ faulted' = TRUE /\ resok' = FALSE /\ resdata' = Zero /\ pc' = "ret"
            /\ UNCHANGED <<file, keys, cache, cur, buf, got, pos>>
Alloc == /\ pc = "alloc" /\ buf' = Zero /\ got' = 0
         /\ pc' = IF cur[2] = cur[1] THEN "insert" ELSE "read"
         /\ UNCHANGED <<file, keys, cache, cur, pos, resok, resdata, faulted>>
ReadChunk(n) ==
    /\ pc = "read" /\ n >= 1 /\ n <= (cur[2] - cur[1]) - got /\ pos + n <= MAXN
    /\ buf' = [i \in Offs |-> IF pos <= i /\ i < pos + n THEN file[i] ELSE buf[i]]
    /\ got' = got + n /\ pos' = pos + n
    /\ pc' = IF got + n = cur[2] - cur[1] THEN "insert" ELSE "read"
    /\ UNCHANGED <<file, keys, cache, cur, resok, resdata, faulted>>
ReadInterrupted == pc = "read" /\ UNCHANGED <<file, keys, cache, pc, cur, buf, got, pos, resok, resdata, faulted>>
ReadFail == /\ pc = "read" /\ faulted' = TRUE /\ resok' = FALSE /\ resdata' = Zero /\ pc' = "ret"
            /\ UNCHANGED <<file, keys, cache, cur, buf, got, pos>>
Insert == /\ pc = "insert"
          /\ keys' = keys \union {cur}
          /\ cache' = [cache EXCEPT ![cur] = buf]
          /\ resok' = TRUE /\ resdata' = buf /\ pc' = "ret"
          /\ UNCHANGED <<file, cur, buf, got, pos, faulted>>
Return == /\ pc = "ret" /\ pc' = "idle"
          /\ UNCHANGED <<file, keys, cache, cur, buf, got, pos, resok, resdata, faulted>>

Next == \/ \E r \in AllKeys : Call(r)
        \/ SeekOk \/ SeekFail \/ Alloc
        \/ \E n \in 1..5 : ReadChunk(n)
        \/ ReadInterrupted \/ ReadFail \/ Insert \/ Return

\* ---- the inductive invariant ---------------------------------------------------------------------
TypeOK ==
    /\ file \in [Offs -> Cells]
    /\ keys \in SUBSET AllKeys
    /\ cache \in [AllKeys -> [Offs -> Cells]]
    /\ pc \in {"idle", "seek", "alloc", "read", "insert", "ret"}
    /\ cur \in AllKeys /\ cur[1] <= cur[2]
    /\ buf \in [Offs -> Cells] /\ resdata \in [Offs -> Cells]
    /\ got \in 0..MAXN /\ pos \in 0..MAXN
    /\ resok \in BOOLEAN /\ faulted \in BOOLEAN
CacheSound == \A k \in keys : InFile(k) /\ Agrees(cache[k], k[1], k[2])
Progress ==
    /\ pc \in {"seek", "alloc", "read", "insert"} => (InFile(cur) /\ cur \notin keys /\ ~faulted)
    /\ pc = "alloc" => pos = cur[1]
    /\ pc = "read" => /\ got < cur[2] - cur[1] /\ pos = cur[1] + got
                      /\ Agrees(buf, cur[1], cur[1] + got)
    /\ pc = "insert" => Agrees(buf, cur[1], cur[2])
ResultOk ==
    pc = "ret" =>
        /\ faulted => ~resok
        /\ resok => (InFile(cur) /\ Agrees(resdata, cur[1], cur[2]))
        /\ (~faulted /\ InFile(cur)) => resok
        /\ ~InFile(cur) => ~resok
IndInv == TypeOK /\ CacheSound /\ Progress /\ ResultOk
\* an arbitrary state satisfying the invariant (for the inductive step)
IndInit == IndInv
Safety == CacheSound /\ ResultOk
=============================================================================
