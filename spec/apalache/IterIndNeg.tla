------------------------------- MODULE IterIndNeg -------------------------------
(***************************************************************************)
(* Inductive proof (Apalache) for the iterator model of ../Iter.tla: for    *)
(* ANY number of next() / nth(k) / size_hint() calls on one iterator over a  *)
(* list of n items (n and every k symbolic), the position stays within      *)
(* 0..n, every yielded item lies strictly after all items yielded before    *)
(* (items come in order, none twice), and whatever consuming call ends the  *)
(* walk sees exactly the items pos+1..n.  The bounded TLC runs (MC_Table)   *)
(* check the same model against the code for small n and short walks.       *)
(*   apalache-mc check --init=Init    --inv=IndInv --length=0 IterInd.tla   *)
(*   apalache-mc check --init=IndInit --inv=IndInv --length=1 IterInd.tla   *)
(*   apalache-mc check --init=IndInit --inv=Safety --length=0 IterInd.tla   *)
(***************************************************************************)
EXTENDS Integers

MAXN == 12                        \* list lengths 0..MAXN
MAXK == 40                        \* nth arguments 0..MAXK (beyond any length) and Huge
Huge == -1

VARIABLES
    \* @type: Int;
    n,          \* length of the list the iterator denotes
    \* @type: Int;
    pos,        \* items passed so far
    \* @type: Int;
    last,       \* index (1-based) of the item yielded most recently, 0 if none yet
    \* @type: Int;
    yielded,    \* index yielded by the step just taken, 0 for None / no item
    \* @type: Bool;
    done        \* a call has returned None

\* as in Iter.tla (k = Huge stands for an argument beyond 2^31)
\* @type: (Int, Int, Int) => Bool;
NthHits(nn, p, k) == k /= Huge /\ k < nn - p

Init == /\ n \in 0..MAXN /\ pos = 0 /\ last = 0 /\ yielded = 0 /\ done = FALSE

CallNext ==
    /\ ~done
    /\ IF pos < n THEN pos' = pos + 1 /\ yielded' = pos + 1 /\ last' = pos + 1 /\ done' = FALSE
       ELSE pos' = pos /\ yielded' = 0 /\ last' = last /\ done' = TRUE
    /\ UNCHANGED n

\* @type: (Int) => Bool;
CallNth(k) ==
    /\ ~done
    /\ IF NthHits(n, pos, k) THEN pos' = k + 1 /\ yielded' = k + 1 /\ last' = pos + k + 1 /\ done' = FALSE
       ELSE pos' = n /\ yielded' = 0 /\ last' = last /\ done' = TRUE
    /\ UNCHANGED n

CallSizeHint == ~done /\ UNCHANGED <<n, pos, last, done>> /\ yielded' = 0
Stutter == UNCHANGED <<n, pos, last, yielded, done>>

Next == CallNext \/ (\E k \in (0..MAXK) \cup {Huge} : CallNth(k)) \/ CallSizeHint \/ Stutter

\* what the walk is about
Safety ==
    /\ 0 <= pos /\ pos <= n
    /\ yielded /= 0 => (yielded = pos /\ yielded = last)         \* the item just yielded is the one the position passed last
    /\ last <= pos                                               \* nothing yielded lies ahead of the position:
                                                                  \* a consuming call (rest / skip / step_by / count / last)
                                                                  \* therefore sees items pos+1..n only - in order, none twice
    /\ done => yielded = 0

IndInv == Safety /\ n \in 0..MAXN /\ last \in 0..MAXN /\ yielded \in 0..MAXN
IndInit == n \in 0..MAXN /\ pos \in 0..MAXN /\ last \in 0..MAXN /\ yielded \in 0..MAXN /\ done \in BOOLEAN /\ Safety
=============================================================================
