------------------------------ MODULE MC_Hash ------------------------------
(* C11 / C12, completeness on well-formed tables.  .gnu.hash and .hash sections are BUILT in TLA+
   from the format descriptions (bloom filter, buckets, chains for a symbol table) for every small
   name set from a pool containing the empty name, a non-UTF-8 name, a djb2-colliding pair
   ("aB"/"b!"), an elf_hash-colliding pair ("aa"/"bQ") and a pair whose GNU hashes differ only in
   bit 0 ("a"/"b"), with every combination of bucket count, bloom size, shift and symoffset.
   TLC checks: the built table satisfies the well-formedness predicate; lookup finds every hashed
   symbol and returns None for every absent pool name; every hit is sound.  Each table is emitted as
   a session (buffers + one lookup per pool name with the predicted answer) for replay. *)
EXTENDS Hash, Abi, Json
CONSTANTS Kind,          \* "gnu" | "sysv"
          Encs,          \* subset of 1..4 : <<class, little>>
          Buckets, Blooms, Shifts, SymOffs, MaxNames,
          PoolSel        \* "base" | "boundary" : which pool of names

EncOf(k) == CASE k = 1 -> <<32, TRUE>> [] k = 2 -> <<32, FALSE>> [] k = 3 -> <<64, TRUE>> [] k = 4 -> <<64, FALSE>>
\* names whose hashes sit at the boundaries of the lookup's arithmetic (found by a meet-in-the-middle search outside
\* TLC; that they have these hashes is asserted below).  GNU: hash 0 (twice), 1, 2^32-1, 2^32-2 - chain words 0 / 1
\* and all-ones.  SysV: the state before the last byte is 0xfffffff resp. 0xffffff1, so that (h << 4) + c carries out
\* of 32 bits for the last byte 'z', '!' resp. 0xf0 and just does not for 0xef.
Mg(x) == <<109, 103, 101, 110, 97, 110, 97, x>>
CarryA == <<96, 76, 60, 60, 59, 67, 105, 47>>
CarryB == <<123, 44, 58, 89, 104, 117, 48, 33>>
PoolBoundary == IF Kind = "gnu"
                THEN << <<>>, Mg(100), <<97, 103, 109, 116, 97, 118, 100, 119>>, Mg(101), Mg(99), Mg(98), <<97>> >>
                ELSE << <<>>, Append(CarryA, 122), Append(CarryA, 33), Append(CarryB, 240), Append(CarryB, 239), <<97, 97>> >>
ASSUME Kind = "gnu" => /\ GnuHash(Mg(100)) = W4(0) /\ GnuHash(<<97, 103, 109, 116, 97, 118, 100, 119>>) = W4(0)
                       /\ GnuHash(Mg(101)) = W4(1) /\ GnuHash(Mg(99)) = <<255, 255, 255, 255>> /\ GnuHash(Mg(98)) = <<254, 255, 255, 255>>
ASSUME Kind = "sysv" => /\ SysvHash(CarryA) = <<255, 255, 255, 15>> /\ SysvHash(CarryB) = <<241, 255, 255, 15>>
                        /\ \A i \in 2..5 : SysvHash(PoolBoundary[i]) = ElfHashRef(PoolBoundary[i])
PoolBase == << <<>>, <<97>>, <<98>>, <<97, 66>>, <<98, 33>>, <<97, 97>>, <<98, 81>>, <<195, 40>>, <<122, 122, 122, 122, 122, 122, 122, 122>> >>
Pool == IF PoolSel = "boundary" THEN PoolBoundary ELSE PoolBase
NP == Len(Pool)

RECURSIVE CatAll(_, _)
CatAll(seqs, n) == IF n = 0 THEN <<>> ELSE CatAll(seqs, n - 1) \o seqs[n]

\* ---- symbol table and its string table for a sequence of names (names[1] is the null symbol) ----
RECURSIVE NameOffsH(_, _, _, _)
NameOffsH(names, i, pos, acc) ==
    IF i > Len(names) THEN acc
    ELSE IF i = 1 \/ Len(names[i]) = 0 THEN NameOffsH(names, i + 1, pos, Append(acc, 0))
    ELSE NameOffsH(names, i + 1, pos + Len(names[i]) + 1, Append(acc, pos))
StrTabOf(names) == <<0>> \o CatAll([i \in 1..Len(names) |-> IF i = 1 \/ Len(names[i]) = 0 THEN <<>> ELSE Append(names[i], 0)], Len(names))
SymTabOf(names, class, little) ==
    LET offs == NameOffsH(names, 1, 1, <<>>)
    IN CatAll([i \in 1..Len(names) |->
                 Enc("sym", class, little, [st_name |-> W4(offs[i]), st_value |-> W8(16 * i), st_size |-> W8(i),
                                            st_info |-> <<IF i = 1 THEN 0 ELSE 18>>, st_other |-> <<0>>, st_shndx |-> W2(IF i = 1 THEN 0 ELSE 5)])],
              Len(names))

W32(n, little) == IF little THEN W4(n) ELSE Rev(W4(n))
Wd(w, little) == IF little THEN w ELSE Rev(w)

\* ---- GNU: symbols from symoffset on are hashed, grouped by bucket (ascending, stable) --------------
\* stable insertion sort of <<key, name>> pairs by key
RECURSIVE InsertP(_, _)
InsertP(sorted, x) == IF sorted = <<>> THEN <<x>>
                      ELSE IF x[1] < sorted[1][1] THEN <<x>> \o sorted ELSE <<sorted[1]>> \o InsertP(Tail(sorted), x)
RECURSIVE SortP(_)
SortP(s) == IF s = <<>> THEN <<>> ELSE InsertP(SortP(SubSeq(s, 1, Len(s) - 1)), s[Len(s)])

GnuOrder(names, symoff, nbucket) ==
    LET head == SubSeq(names, 1, symoff)
        hashed == SubSeq(names, symoff + 1, Len(names))
        sorted == SortP([i \in 1..Len(hashed) |-> <<ModW(GnuHash(hashed[i]), nbucket), hashed[i]>>])
    IN head \o [i \in 1..Len(sorted) |-> sorted[i][2]]

\* a bloom word (ws bytes) with the given bit set
BloomWord(bits, ws) == [j \in 1..ws |-> LET S == { b \in 0..7 : (8 * (j - 1) + b) \in bits }
                                        IN (IF 0 \in S THEN 1 ELSE 0) + (IF 1 \in S THEN 2 ELSE 0) + (IF 2 \in S THEN 4 ELSE 0) + (IF 3 \in S THEN 8 ELSE 0)
                                           + (IF 4 \in S THEN 16 ELSE 0) + (IF 5 \in S THEN 32 ELSE 0) + (IF 6 \in S THEN 64 ELSE 0) + (IF 7 \in S THEN 128 ELSE 0)]

BuildGnu(names, symoff, nbucket, nbloom, shift, class, little) ==      \* names already in GnuOrder
    LET n == Len(names)
        ws == IF class = 32 THEN 4 ELSE 8
        lg == IF class = 32 THEN 5 ELSE 6
        H(i) == GnuHash(names[i])                    \* i: 1-based position, symbol index i-1
        B(i) == ModW(H(i), nbucket)
        WordOf(i) == (IF class = 32 THEN ShrVal(H(i), 5) ELSE ShrVal(H(i), 6)) % nbloom
        bloom == CatAll([w \in 1..nbloom |->
                    Wd(BloomWord(UNION { {BitsAt(H(i), 0, lg), BitsAt(H(i), shift, lg)} : i \in { j \in (symoff + 1)..n : WordOf(j) = w - 1 } }, ws), little)],
                  nbloom)
        buckets == CatAll([b \in 1..nbucket |->
                      LET members == { i \in (symoff + 1)..n : B(i) = b - 1 }
                      IN W32(IF members = {} THEN 0 ELSE (CHOOSE m \in members : \A x \in members : m <= x) - 1, little)],
                    nbucket)
        chains == CatAll([k \in 1..(n - symoff) |->
                     LET i == symoff + k
                         last == (i = n) \/ B(i + 1) # B(i)
                         h == H(i)
                     IN Wd(<<(h[1] \div 2) * 2 + (IF last THEN 1 ELSE 0), h[2], h[3], h[4]>>, little)],
                   n - symoff)
    IN W32(nbucket, little) \o W32(symoff, little) \o W32(nbloom, little) \o W32(shift, little) \o bloom \o buckets \o chains

\* ---- SysV: every symbol 1..n-1 is pushed on the front of its bucket's chain -------------------------
RECURSIVE SysvLink(_, _, _, _, _)
SysvLink(names, nbucket, i, bk, ch) ==         \* bk, ch : functions index -> value
    IF i > Len(names) THEN <<bk, ch>>
    ELSE LET b == ModW(SysvHash(names[i]), nbucket) + 1
         IN SysvLink(names, nbucket, i + 1, [bk EXCEPT ![b] = i - 1], [ch EXCEPT ![i] = bk[b]])
BuildSysv(names, nbucket, little) ==
    LET r == SysvLink(names, nbucket, 2, [b \in 1..nbucket |-> 0], [i \in 1..Len(names) |-> 0])
    IN W32(nbucket, little) \o W32(Len(names), little) \o CatAll([b \in 1..nbucket |-> W32(r[1][b], little)], nbucket)
       \o CatAll([i \in 1..Len(names) |-> W32(r[2][i], little)], Len(names))

\* ---- the instance -----------------------------------------------------------------------------------
HdrEdits == IF Kind = "gnu" THEN {"none", "nbloom0", "nbucket0", "nshift32", "nshift33", "nshift64", "nshiftmax", "symoffmax", "symoff0"}
            ELSE {"none", "nbucket0", "nchain0", "nchainmax"}
VARIABLE c
Init == c = [stage |-> 0]
NameSets == { s \in SUBSET (1..NP) : Cardinality(s) <= MaxNames }
RECURSIVE S2S(_)
S2S(S) == IF S = {} THEN <<>> ELSE LET x == CHOOSE y \in S : \A z \in S : y <= z IN <<x>> \o S2S(S \ {x})
Next == \/ c.stage = 0 /\ \E k \in Encs, nb \in Buckets, so \in SymOffs :
                             c' = [stage |-> 1, enc |-> k, nbucket |-> nb, symoff |-> so]
        \/ c.stage = 1 /\ \E s \in NameSets, nbl \in (IF Kind = "gnu" THEN Blooms ELSE {1}), sh \in (IF Kind = "gnu" THEN Shifts ELSE {0}),
                               ed \in HdrEdits :
                             /\ (ed # "none" => Cardinality(s) = MaxNames /\ nbl = 1 /\ sh = 0)   \* header edits on one slice of the largest tables
                             /\ c' = [c EXCEPT !.stage = 2] @@ [names |-> s, nbloom |-> nbl, shift |-> sh, edit |-> ed]

Class == EncOf(c.enc)[1]
Little == EncOf(c.enc)[2]
\* unhashed leading symbols: the null symbol and (symoff - 1) fillers named "u"
Raw == <<<<>>>> \o [i \in 1..(c.symoff - 1) |-> <<117>>] \o [i \in 1..Cardinality(c.names) |-> Pool[S2S(c.names)[i]]]
Names == IF Kind = "gnu" THEN GnuOrder(Raw, c.symoff, c.nbucket) ELSE Raw
First == IF Kind = "gnu" THEN c.symoff ELSE 1
\* header fields overwritten AFTER a well-formed build (C01/C16: lookups on such tables must be total), with every
\* bloom bit set so that the lookup gets past the filter
PutAt(b, off, w) == [i \in 1..Len(b) |-> IF i > off /\ i <= off + Len(w) THEN w[i - off] ELSE b[i]]
MaxU32 == <<255, 255, 255, 255>>
Edited(b) ==
    LET L == Little
        ws == IF Class = 32 THEN 4 ELSE 8
        ones == IF Kind = "gnu" THEN [i \in 1..Len(b) |-> IF i > 16 /\ i <= 16 + ws * c.nbloom THEN 255 ELSE b[i]] ELSE b
    IN CASE c.edit = "none" -> b
         [] c.edit = "nbloom0" -> PutAt(ones, 8, W32(0, L))
         [] c.edit = "nbucket0" -> PutAt(ones, 0, W32(0, L))
         [] c.edit = "nshift32" -> PutAt(ones, 12, W32(32, L))
         [] c.edit = "nshift33" -> PutAt(ones, 12, W32(33, L))
         [] c.edit = "nshift64" -> PutAt(ones, 12, W32(64, L))
         [] c.edit = "nshiftmax" -> PutAt(ones, 12, MaxU32)
         [] c.edit = "symoffmax" -> PutAt(ones, 4, MaxU32)
         [] c.edit = "symoff0" -> PutAt(ones, 4, W32(0, L))
         [] c.edit = "nchain0" -> PutAt(b, 4, W32(0, L))
         [] c.edit = "nchainmax" -> PutAt(b, 4, MaxU32)
HashB == Edited(IF Kind = "gnu" THEN BuildGnu(Names, c.symoff, c.nbucket, c.nbloom, c.shift, Class, Little) ELSE BuildSysv(Names, c.nbucket, Little))
SymB == SymTabOf(Names, Class, Little)
StrB == StrTabOf(Names)
Find(q) == IF Kind = "gnu" THEN GnuFind(Class, Little, HashB, SymB, StrB, q) ELSE SysvFind(Class, Little, HashB, SymB, StrB, q)
Queries == [i \in 1..NP |-> Pool[i]] \o << <<117>>, <<99, 99>> >>

Prop_Hash ==
    /\ c.edit = "none" => IF Kind = "gnu" THEN GnuWellFormed(Class, Little, HashB, SymB, StrB) ELSE SysvWellFormed(Class, Little, HashB, SymB, StrB)
    /\ \A i \in 1..Len(Queries) :
         LET q == Queries[i] r == Find(q)
         IN /\ Sound(Class, Little, SymB, StrB, q, r)                                     \* any table bytes
            /\ c.edit = "none" => Complete(Class, Little, SymB, StrB, q, First, r)        \* well-formed tables
            /\ r.out \in {"ok", "none", "err"}

Emit == PrintT(ToJson([ops |->
          << [op |-> "session", family |-> "mc-hash"],
             [op |-> "buf", slot |-> "h", bytes |-> HashB], [op |-> "buf", slot |-> "sy", bytes |-> SymB],
             [op |-> "buf", slot |-> "st", bytes |-> StrB] >> \o
          [i \in 1..Len(Queries) |->
             LET r == Find(Queries[i])
             IN [op |-> IF Kind = "gnu" THEN "gnu_find" ELSE "sysv_find", class |-> Class, es |-> IF Little THEN "LE" ELSE "AnyB",
                 hashslot |-> "h", symslot |-> "sy", strslot |-> "st", name |-> Queries[i], wf |-> (c.edit = "none"), first |-> First,
                 \* on a table with an edited header no property fixes None vs Err: the answer is left open (only a
                 \* panic / hang counts there)
                 exp |-> IF c.edit # "none" THEN [x \in {} |-> 0]
                         ELSE IF r.out = "ok" THEN [out |-> "ok", idx |-> r.idx, sym |-> r.sym] ELSE [out |-> r.out]]]]))
Inv == c.stage = 2 => (Prop_Hash /\ Emit)
=============================================================================
