------------------------------ MODULE Features ------------------------------
(* C06, feature clause: the configuration space {alloc, std, to_str} and the API surface each
   configuration must expose (lib.rs:128-163, to_str.rs:4-8, Cargo.toml [features]). *)
EXTENDS Naturals, Sequences, FiniteSets

Feats == {"alloc", "std", "to_str"}
SetOf(seq) == {seq[i] : i \in 1..Len(seq)}
\* cargo: std = ["alloc"]
Closure(s) == IF "std" \in s THEN s \cup {"alloc"} ELSE s

FeatureOk(e) ==
    LET s == Closure(SetOf(e.set))
    IN /\ e.builds                                            \* every subset compiles
       /\ e.p_core_api                                        \* the no_std core API is always there
       /\ e.p_stream = ("std" \in s)                          \* ElfStream iff std
       /\ e.p_to_str = ("to_str" \in s)                       \* to_str iff to_str
       /\ e.p_to_string = ("to_str" \in s /\ "alloc" \in s)   \* *_to_string iff to_str and alloc
\* with default features disabled the crate builds with only `core` in the sysroot
FeatureCoreOk(e) == e.builds
=============================================================================
