------------------------------ MODULE MC_Links ------------------------------
(* C16 / C12: every SysV hash table over a small symbol table -- buckets and chains as ARBITRARY
   functions into the symbol indices (every cycle length, self-loops, dangling and out-of-range
   links).  The chain walk of the operational model is bounded by nchain (ghost step count), is
   sound on every table, and each case is emitted for replay: the implementation must return the
   same answer, within the CPU budget (a hang is recorded by the watchdog). *)
EXTENDS Hash, Json
CONSTANTS NSym,       \* symbols 0..NSym-1 (0 = the null symbol), names "a","b","c",...
          NBucket, MaxCell

VARIABLE t
Little == TRUE
Unnamed == {{}, {1}, 1..(NSym - 1)}        \* which symbols are unnamed: none, the first, all
Class == 32
\* symbols in t.un have no name (st_name = 0), like the null symbol
NameOf(i) == IF i = 0 \/ i \in t.un THEN <<>> ELSE <<96 + i>>
StrTab == <<0>> \o [k \in 1..(2 * (NSym - 1)) |-> IF k % 2 = 1 THEN 96 + ((k + 1) \div 2) ELSE 0]   \* "\0a\0b\0c\0"
NameOff(i) == IF i = 0 \/ i \in t.un THEN 0 ELSE 2 * i - 1
\* unnamed symbols are typically STT_SECTION / STT_FILE symbols: st_info = t.info for them
SymEnt(i) == W4(NameOff(i)) \o W4(i) \o W4(0) \o <<IF i \in t.un THEN t.info ELSE 0, 0>> \o W2(1)            \* Elf32_Sym
RECURSIVE Cat(_, _)
Cat(f, n) == IF n = 0 THEN <<>> ELSE Cat(f, n - 1) \o f[n]
SymTab == Cat([i \in 1..NSym |-> SymEnt(i - 1)], NSym)

Table(b, c) == W4(NBucket) \o W4(NSym) \o Cat([i \in 1..NBucket |-> W4(b[i])], NBucket) \o Cat([i \in 1..NSym |-> W4(c[i])], NSym)

Init == t \in { [b |-> b, c |-> c, q |-> q, un |-> un, info |-> nfo] : b \in [1..NBucket -> 0..MaxCell], c \in [1..NSym -> 0..MaxCell],
                                              q \in {<<97>>, <<98>>, <<122, 122>>, <<>>}, un \in Unnamed, nfo \in {0, 3, 4} }
        /\ (t.un = {} => t.info = 0)
Next == UNCHANGED t

Res == SysvFind(Class, Little, Table(t.b, t.c), SymTab, StrTab, t.q)

\* ghost: number of chain steps a bounded walk takes from the bucket of q
RECURSIVE Steps(_, _)
Steps(idx, i) == IF idx = 0 \/ i >= NSym \/ idx >= NSym THEN i
                 ELSE IF NameOf(idx) = t.q THEN i ELSE Steps(t.c[idx + 1], i + 1)
Prop_C16 == Steps(t.b[ModW(SysvHash(t.q), NBucket) + 1], 0) <= NSym
Prop_Sound == Sound(Class, Little, SymTab, StrTab, t.q, Res)

Emit == PrintT(ToJson([op |-> "sysv_find", class |-> Class, es |-> "LE", hash |-> Table(t.b, t.c), sym |-> SymTab,
                       str |-> StrTab, name |-> t.q, wf |-> FALSE, first |-> 1,
                       \* arbitrary link structures are not well-formed tables: a hit must be sound (it is then unique here:
                       \* names are distinct), everything else is left open -- termination is what is being replayed
                       exp |-> IF Res.out = "ok" /\ t.q # <<>> THEN [out |-> "ok", idx |-> Res.idx, sym |-> Res.sym] ELSE [x \in {} |-> 0]]))
Inv == Prop_C16 /\ Prop_Sound /\ Emit
=============================================================================
