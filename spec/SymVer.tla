------------------------------- MODULE SymVer -------------------------------
(* GNU symbol versioning (gnu_symver.rs): the four linked-record iterators, get_requirement,
   get_definition (operational), and the declarative resolution against a ground-truth model
   (C13); the iterators also carry the step bounds of C16. *)
EXTENDS Parse, StrTab

\* ---- one next() of a version-record iterator ------------------------------------------
\* kind in {"verdef","verdaux","verneed","vernaux"}; state st = [count |-> word8, off |-> word8]
NextField(kind) == CASE kind = "verdef" -> "vd_next" [] kind = "verdaux" -> "vda_next"
                     [] kind = "verneed" -> "vn_next" [] kind = "vernaux" -> "vna_next"
Dec1(w) == SubW(w, W8(1))[1]

VNext(kind, little, buf, st) ==
    IF Len(buf) = 0 \/ IsZeroW(st.count) THEN [some |-> FALSE]
    ELSE LET r == ParseAt(kind, 32, little, buf, st.off)              \* .ok()? : a failed parse ends iteration
         IN IF ~r.ok THEN [some |-> FALSE]
            ELSE LET nx == r.f[NextField(kind)]
                     off1 == AddW(st.off, ZExt(nx, 8))[1]              \* checked_add cannot overflow with 64-bit usize
                     c1 == Dec1(st.count)
                     c2 == IF ~IsZeroW(c1) /\ IsZeroW(nx) THEN W8(0) ELSE c1    \* next == 0 ends iteration
                 IN [some |-> TRUE, f |-> r.f, st |-> [count |-> c2, off |-> off1],
                     \* the aux iterator handed out with a verdef / verneed record
                     aux |-> CASE kind = "verdef" -> [count |-> ZExt(r.f["vd_cnt"], 8), off |-> AddW(st.off, ZExt(r.f["vd_aux"], 8))[1]]
                               [] kind = "verneed" -> [count |-> ZExt(r.f["vn_cnt"], 8), off |-> AddW(st.off, ZExt(r.f["vn_aux"], 8))[1]]
                               [] OTHER -> <<>>]

RECURSIVE VAll(_, _, _, _, _)
VAll(kind, little, buf, st, acc) ==
    LET r == VNext(kind, little, buf, st)
    IN IF r.some THEN VAll(kind, little, buf, r.st, Append(acc, r)) ELSE acc
\* full iteration: sequence of [f, aux-state]
VIter(kind, little, buf, countW, offW) == VAll(kind, little, buf, [count |-> countW, off |-> offW], <<>>)

AuxKind(kind) == IF kind = "verdef" THEN "verdaux" ELSE "vernaux"

\* ---- strings ---------------------------------------------------------------------------
StrRes(strbuf, offW) == LET r == Get(strbuf, ZExt(offW, 8))
                        IN IF r.ok THEN [out |-> "ok", s |-> RangeJ(r.start, r.len)] ELSE [out |-> "err"]

\* ---- get_requirement (gnu_symver.rs:69-108) ----------------------------------------------
\* need = <<>> (absent) or [buf, count (word8), str]
VER_NDX_OF(ver) == <<ver[1], ver[2] % 128>>
RECURSIVE ReqScanAux(_, _, _, _, _, _)
ReqScanAux(little, need, vn, auxs, j, ver) ==
    IF j > Len(auxs) THEN [out |-> "none"]
    ELSE LET a == auxs[j].f
         IN IF a["vna_other"] # VER_NDX_OF(ver) THEN ReqScanAux(little, need, vn, auxs, j + 1, ver)
            ELSE LET file == StrRes(need.str, vn["vn_file"])
                     name == StrRes(need.str, a["vna_name"])
                 IN IF file.out = "err" \/ name.out = "err" THEN [out |-> "err"]
                    ELSE [out |-> "ok", file |-> file.s, name |-> name.s, hash |-> a["vna_hash"],
                          flags |-> a["vna_flags"], hidden |-> ver[2] >= 128]

RECURSIVE ReqScan(_, _, _, _, _)
ReqScan(little, need, vns, i, ver) ==
    IF i > Len(vns) THEN [out |-> "none"]
    ELSE LET auxs == VAll("vernaux", little, need.buf, vns[i].aux, <<>>)
             r == ReqScanAux(little, need, vns[i].f, auxs, 1, ver)
         IN IF r.out = "none" THEN ReqScan(little, need, vns, i + 1, ver) ELSE r

GetRequirement(class, little, versym, need, idxW) ==
    IF need = <<>> THEN [out |-> "none"]
    ELSE LET v == TblGet("versym", class, little, versym, idxW)
         IN IF ~v.ok THEN [out |-> "err"]
            ELSE ReqScan(little, need, VIter("verneed", little, need.buf, need.count, W8(0)), 1, v.f["v"])

\* ---- get_definition (gnu_symver.rs:110-150) ------------------------------------------------
RECURSIVE DefScan(_, _, _, _, _)
DefScan(little, def, vds, i, ver) ==
    IF i > Len(vds) THEN [out |-> "none"]
    ELSE LET d == vds[i].f
         IN IF d["vd_ndx"] # VER_NDX_OF(ver) THEN DefScan(little, def, vds, i + 1, ver)
            ELSE LET auxs == VAll("verdaux", little, def.buf, vds[i].aux, <<>>)
                 IN [out |-> "ok", hash |-> d["vd_hash"], flags |-> d["vd_flags"], hidden |-> ver[2] >= 128,
                     names |-> [j \in 1..Len(auxs) |-> StrRes(def.str, auxs[j].f["vda_name"])]]

GetDefinition(class, little, versym, def, idxW) ==
    IF def = <<>> THEN [out |-> "none"]
    ELSE LET v == TblGet("versym", class, little, versym, idxW)
         IN IF ~v.ok THEN [out |-> "err"]
            ELSE DefScan(little, def, VIter("verdef", little, def.buf, def.count, W8(0)), 1, v.f["v"])

\* ---- declarative C13 against a ground-truth model --------------------------------------------
\* model = [versym |-> seq of 2-byte words,
\*          needs  |-> seq of [file |-> bytes, auxs |-> seq of [name, hash, flags, other]],
\*          defs   |-> seq of [ndx, flags, hash, names |-> seq of bytes]]
Bytes(buf, rng) == IF rng[2] = 0 THEN <<>> ELSE SubSeq(buf, rng[1] + 1, rng[1] + rng[2])

FlatAux(model) ==       \* all aux records in file order, with their file name
    LET RECURSIVE F(_, _, _)
        F(i, j, acc) == IF i > Len(model.needs) THEN acc
                        ELSE IF j > Len(model.needs[i].auxs) THEN F(i + 1, 1, acc)
                        ELSE F(i, j + 1, Append(acc, [file |-> model.needs[i].file, a |-> model.needs[i].auxs[j]]))
    IN F(1, 1, <<>>)

\* res is the projected result; strbuf the strings buffer its ranges point into
ReqOk(model, i, res, strbuf) ==
    IF i = Huge \/ i >= Len(model.versym) THEN res.out # "ok"            \* never a record beyond the table
    ELSE LET v == model.versym[i + 1]
             ndx == <<v[1], v[2] % 128>>
             fl == FlatAux(model)
             hits == { k \in 1..Len(fl) : fl[k].a.other = ndx }
         IN IF hits = {} THEN res.out = "none"
            ELSE LET k == CHOOSE x \in hits : \A y \in hits : x <= y
                 IN /\ res.out = "ok"
                    /\ Bytes(strbuf, res.file) = fl[k].file
                    /\ Bytes(strbuf, res.name) = fl[k].a.name
                    /\ res.hash = fl[k].a.hash /\ res.flags = fl[k].a.flags
                    /\ res.hidden = (v[2] >= 128)

DefOk(model, i, res, strbuf) ==
    IF i = Huge \/ i >= Len(model.versym) THEN res.out # "ok"
    ELSE LET v == model.versym[i + 1]
             ndx == <<v[1], v[2] % 128>>
             hits == { k \in 1..Len(model.defs) : model.defs[k].ndx = ndx }
         IN IF hits = {} THEN res.out = "none"
            ELSE LET d == model.defs[CHOOSE x \in hits : \A y \in hits : x <= y]
                 IN /\ res.out = "ok"
                    /\ res.hash = d.hash /\ res.flags = d.flags /\ res.hidden = (v[2] >= 128)
                    /\ Len(res.names) = Len(d.names)
                    /\ \A j \in 1..Len(d.names) : res.names[j].out = "ok" /\ Bytes(strbuf, res.names[j].s) = d.names[j]
=============================================================================
