INIT Init
NEXT Next
INVARIANT Inv
CONSTANTS
 Encs = {1, 2, 3, 4}
 Layouts = {1, 2}
 Orders = {1, 2}
CHECK_DEADLOCK FALSE
