------------------------------ MODULE ElfFile ------------------------------
(***************************************************************************)
(* The slice parser (elf_bytes.rs) as total operators File x args ->       *)
(* projected result, transcribed from the code with its quirks (DESIGN     *)
(* 1.4), plus the stream parser's result semantics where it differs        *)
(* (elf_stream.rs accessors; the I/O behaviour is in Stream.tla).          *)
(*                                                                         *)
(* A file f is [len, dense, bytes] or [len, dense, fill, chunks] (sparse). *)
(* A handle eb is what minimal_parse / open_stream returns:                *)
(*   [ehdr, class, little, sh, ph]  with sh/ph = <<>> (absent) or          *)
(*   [off |-> nat, n |-> nat]                                              *)
(***************************************************************************)
EXTENDS Parse, StrTab, Header, Note, Hash, SymVer

\* ---- file access -----------------------------------------------------------
ByteAt(f, i) ==     \* 0-based
    IF f.dense THEN f.bytes[i + 1]
    ELSE IF Len(f.chunks) = 1 /\ f.chunks[1].off = 0                      \* one leading chunk, then the fill: direct
         THEN (IF i < Len(f.chunks[1].bytes) THEN f.chunks[1].bytes[i + 1] ELSE f.fill)
    ELSE LET hit == { k \in 1..Len(f.chunks) : f.chunks[k].off <= i /\ i < f.chunks[k].off + Len(f.chunks[k].bytes) }
         IN IF hit = {} THEN f.fill
            ELSE LET k == CHOOSE x \in hit : \A y \in hit : x >= y       \* later chunks overwrite earlier ones
                 IN f.chunks[k].bytes[i - f.chunks[k].off + 1]
FSub(f, off, n) == IF f.dense THEN SubSeq(f.bytes, off + 1, off + n) ELSE [i \in 1..n |-> ByteAt(f, off + i - 1)]

\* data.get_bytes(start..end) for header-derived (offset, size) words: the designated range or an error
\* (try_into / checked_add overflow / slice out of range are all "an error")
Range(f, offW, sizeW) ==
    LET o == Val(offW) s == Val(sizeW)
    IN IF o = Huge \/ s = Huge \/ o > f.len \/ s > f.len \/ o + s > f.len THEN [ok |-> FALSE]
       ELSE [ok |-> TRUE, start |-> o, len |-> s]

\* ---- projections shared by traces and cases ---------------------------------------
Some(x) == [some |-> TRUE] @@ x
None == [some |-> FALSE]

\* checksum of (a prefix of) a byte tuple, computable on both sides
RECURSIVE CkFrom(_, _, _, _)
CkFrom(b, i, n, acc) == IF i > n THEN acc ELSE CkFrom(b, i + 1, n, (acc * 31 + b[i] + 1) % 65521)
Ck(b) == CkFrom(b, 1, IF Len(b) > 512 THEN 512 ELSE Len(b), 7)

DataProj(f, start, len) == [rng |-> RangeJ(start, len), len |-> len, ck |-> Ck(FSub(f, start, IF len > 512 THEN 512 ELSE len))]

\* string table projection: walk the NUL-terminated strings from offset 0 (at most 64)
RECURSIVE StrWalk(_, _, _)
StrWalk(b, pos, cnt) ==
    IF cnt = 64 \/ pos > Len(b) \/ Len(b) = 0 THEN <<cnt, pos>>
    ELSE LET p == FirstNul(b, pos + 1)
         IN IF p = 0 THEN <<cnt, pos>> ELSE StrWalk(b, p, cnt + 1)
StrProjOn(b, start) ==
    LET w == StrWalk(b, 0, 0)
    \* the position is observable only through a non-empty string (walked > nstr: some string has bytes)
    IN [nstr |-> w[1], walked |-> w[2], ck |-> Ck(SubSeq(b, 1, w[2])), start |-> IF w[2] > w[1] THEN start ELSE 0]
\* the walk reads the table left to right and stops after 64 strings: when those lie in the first 4 KiB of a long
\* table, the rest of the table need not be looked at (same answer by construction; otherwise the whole range is used)
StrProj(f, start, len) ==
    IF len <= 4096 THEN StrProjOn(TLCEval(FSub(f, start, len)), start)
    ELSE LET ps == StrProjOn(TLCEval(FSub(f, start, 4096)), start)
         IN IF ps.nstr = 64 THEN ps ELSE StrProjOn(TLCEval(FSub(f, start, len)), start)

\* lazy table projection at the indices the recorder chose
TblProj(ty, class, little, b, idx) ==
    [n |-> W8(TblLen(ty, class, b)),
     ents |-> [k \in 1..Len(idx) |-> LET r == TblGet(ty, class, little, b, idx[k])
                                     IN IF r.ok THEN Pub(r.f) ELSE [bad |-> TRUE]]]

\* ---- minimal_parse (elf_bytes.rs:175-196) -----------------------------------------
EntSz(ty, class) == SizeFor(ty, class)

\* shdr[0] read at e_shoff
Shdr0(f, class, little, shoffW) ==
    LET o == Val(shoffW) es == EntSz("shdr", class)
    IN IF o = Huge \/ o > f.len \/ o + es > f.len THEN [ok |-> FALSE]
       ELSE ParseNat("shdr", class, little, FSub(f, o, es), 0)

\* find_shdrs (elf_bytes.rs:76-109): <<>> absent | [off, n] | "err"
FindShdrs(f, h) ==
    IF IsZeroW(h["e_shoff"]) THEN [ok |-> TRUE, t |-> <<>>]
    ELSE LET e_shnum == Val(h["e_shnum"])
             s0 == Shdr0(f, h.class, h.little, h["e_shoff"])
         IN IF e_shnum = 0 /\ ~s0.ok THEN [ok |-> FALSE, kind |-> "SliceReadError"]
            ELSE LET shnum == IF e_shnum = 0 THEN Val(s0.f["sh_size"]) ELSE e_shnum
                     es == EntSz("shdr", h.class)
                     o == Val(h["e_shoff"])
                 IN IF Val(h["e_shentsize"]) # es THEN [ok |-> FALSE, kind |-> "BadEntsize"]
                    ELSE IF shnum = Huge \/ o = Huge \/ o > f.len \/ shnum > f.len \/ o + es * shnum > f.len
                         THEN [ok |-> FALSE, kind |-> "SliceReadError"]
                    ELSE [ok |-> TRUE, t |-> [off |-> o, n |-> shnum]]

\* find_phdrs (elf_bytes.rs:113-143)
FindPhdrs(f, h) ==
    IF IsZeroW(h["e_phoff"]) THEN [ok |-> TRUE, t |-> <<>>]
    ELSE LET e_phnum == Val(h["e_phnum"])
             s0 == Shdr0(f, h.class, h.little, h["e_shoff"])       \* read at e_shoff even when it is 0
         IN IF e_phnum = 65535 /\ ~s0.ok THEN [ok |-> FALSE, kind |-> "SliceReadError"]
            ELSE LET phnum == IF e_phnum = 65535 THEN Val(s0.f["sh_info"]) ELSE e_phnum
                     es == EntSz("phdr", h.class)
                     o == Val(h["e_phoff"])
                 IN IF Val(h["e_phentsize"]) # es THEN [ok |-> FALSE, kind |-> "BadEntsize"]
                    ELSE IF phnum = Huge \/ o = Huge \/ o > f.len \/ phnum > f.len \/ o + es * phnum > f.len
                         THEN [ok |-> FALSE, kind |-> "SliceReadError"]
                    ELSE [ok |-> TRUE, t |-> [off |-> o, n |-> phnum]]

\* the file header: ident + tail
ParseEhdr(f, spec) ==
    IF f.len < 16 THEN [ok |-> FALSE, kind |-> "SliceReadError"]
    ELSE LET id == ParseIdent(spec, FSub(f, 0, 16))
         IN IF ~id.ok THEN id
            ELSE LET tl == IF id.class = 32 THEN 36 ELSE 48
                 IN IF 16 + tl > f.len THEN [ok |-> FALSE, kind |-> "SliceReadError"]
                    ELSE LET t == ParseNat("tail", id.class, id.little, FSub(f, 16, tl), 0)
                         IN [ok |-> TRUE,
                             h |-> t.f @@ [class |-> id.class, little |-> id.little, osabi |-> id.osabi,
                                           abiversion |-> id.abiversion]]

Open(f, spec) ==
    LET e == ParseEhdr(f, spec)
    IN IF ~e.ok THEN e
       ELSE LET sh == FindShdrs(f, e.h)
            IN IF ~sh.ok THEN sh
               ELSE LET ph == FindPhdrs(f, e.h)
                    IN IF ~ph.ok THEN ph
                       ELSE [ok |-> TRUE, h |-> e.h, class |-> e.h.class, little |-> e.h.little, sh |-> sh.t, ph |-> ph.t,
                             \* the header tables were located and typed at open; `class` / `little` / h.e_shstrndx are what
                             \* the accessors read from the handle's public header when they are called (a caller may have
                             \* written to it in between: EditHandle)
                             oclass |-> e.h.class, olittle |-> e.h.little]

\* ---- accessors on an open handle ------------------------------------------------------
NSh(eb) == IF eb.sh = <<>> THEN 0 ELSE eb.sh.n
NPh(eb) == IF eb.ph = <<>> THEN 0 ELSE eb.ph.n
ShdrAt(f, eb, i) == ParseNat("shdr", eb.oclass, eb.olittle, FSub(f, eb.sh.off + i * EntSz("shdr", eb.oclass), EntSz("shdr", eb.oclass)), 0).f
PhdrAt(f, eb, i) == ParseNat("phdr", eb.oclass, eb.olittle, FSub(f, eb.ph.off + i * EntSz("phdr", eb.oclass), EntSz("phdr", eb.oclass)), 0).f
\* a caller's write to the public header of an open handle: the class, (for the run-time order value) the byte order and
\* e_shstrndx are read again by later accessors; the other fields are not looked at after open
EditHandle(eb, newClass, flip, newShstrndx) ==
    [eb EXCEPT !.class = IF newClass = 0 THEN @ ELSE newClass,
               !.little = IF flip THEN ~@ ELSE @,
               !.h = IF newShstrndx = <<>> THEN @ ELSE [@ EXCEPT !["e_shstrndx"] = newShstrndx]]
\* shdrs.get(idx) with a word index: error when out of range
ShdrGet(f, eb, idxW) ==
    LET i == Val(idxW)
    IN IF eb.sh = <<>> \/ i = Huge \/ i >= eb.sh.n THEN [ok |-> FALSE] ELSE [ok |-> TRUE, f |-> ShdrAt(f, eb, i)]

\* first section / segment index of a given type, or -1
RECURSIVE FirstShType(_, _, _, _)
FirstShType(f, eb, t, i) == IF i >= NSh(eb) THEN -1 ELSE IF Val(ShdrAt(f, eb, i)["sh_type"]) = t THEN i ELSE FirstShType(f, eb, t, i + 1)
RECURSIVE FirstPhType(_, _, _, _)
FirstPhType(f, eb, t, i) == IF i >= NPh(eb) THEN -1 ELSE IF Val(PhdrAt(f, eb, i)["p_type"]) = t THEN i ELSE FirstPhType(f, eb, t, i + 1)

SHT_SYMTAB == 2  SHT_STRTAB == 3  SHT_RELA == 4  SHT_HASH == 5  SHT_DYNAMIC == 6  SHT_NOTE == 7
SHT_NOBITS == 8  SHT_REL == 9  SHT_DYNSYM == 11
PT_DYNAMIC == 2  PT_NOTE == 4
\* 0x6ffffff6 GNU_HASH, 0x6ffffffd VERDEF, 0x6ffffffe VERNEED, 0x6fffffff VERSYM : compared as words
W_GNU_HASH == <<246, 255, 255, 111>>  W_VERDEF == <<253, 255, 255, 111>>
W_VERNEED == <<254, 255, 255, 111>>   W_VERSYM == <<255, 255, 255, 111>>
SHF_COMPRESSED_BIT == 11      \* 0x800

\* section_headers_with_strtab (elf_bytes.rs:263-299): [ok, some, start, len]
ShStrTab(f, eb) ==
    IF eb.sh = <<>> THEN [ok |-> TRUE, some |-> FALSE]
    ELSE LET ndx == Val(eb.h["e_shstrndx"])
         IN IF ndx = 0 THEN [ok |-> TRUE, some |-> FALSE]
            ELSE LET s0 == ShdrGet(f, eb, W8(0))
                 IN IF ndx = 65535 /\ ~s0.ok THEN [ok |-> FALSE]
                    ELSE LET idx == IF ndx = 65535 THEN ZExt(s0.f["sh_link"], 8) ELSE W8(ndx)
                             st == ShdrGet(f, eb, idx)
                         IN IF ~st.ok THEN [ok |-> FALSE]
                            ELSE LET r == Range(f, st.f["sh_offset"], st.f["sh_size"])
                                 IN IF ~r.ok THEN [ok |-> FALSE] ELSE [ok |-> TRUE, some |-> TRUE, start |-> r.start, len |-> r.len]

\* the stream parser's variant (elf_stream.rs:174-205): an empty section header vector means "none"
ShStrTabS(f, eb) == IF NSh(eb) = 0 THEN [ok |-> TRUE, some |-> FALSE] ELSE ShStrTab(f, eb)

\* section_header_by_name: first section whose name string (valid UTF-8, NUL-terminated in the
\* section-name string table) equals the query
NameOf(f, st, shdr) ==
    LET r == Get(FSub(f, st.start, st.len), ZExt(shdr["sh_name"], 8))
    IN IF r.ok THEN FSub(f, st.start + r.start, r.len) ELSE <<-1>>
RECURSIVE FirstShName(_, _, _, _, _)
FirstShName(f, eb, st, name, i) ==
    IF i >= NSh(eb) THEN -1 ELSE IF NameOf(f, st, ShdrAt(f, eb, i)) = name THEN i ELSE FirstShName(f, eb, st, name, i + 1)
ShdrByName(f, eb, name, stream) ==
    LET st == IF stream THEN ShStrTabS(f, eb) ELSE ShStrTab(f, eb)
    IN IF ~st.ok THEN [out |-> "err"]
       ELSE IF ~st.some THEN [out |-> "none"]
       ELSE LET i == FirstShName(f, eb, st, name, 0)
            IN IF i < 0 THEN [out |-> "none"] ELSE [out |-> "ok", f |-> ShdrAt(f, eb, i), index |-> i]

\* section_data (elf_bytes.rs:439-466) for a caller-supplied header
SectionData(f, eb, shdr) ==
    IF Val(shdr["sh_type"]) = SHT_NOBITS THEN [out |-> "ok", start |-> 0, len |-> 0, chdr |-> None]
    ELSE LET r == Range(f, shdr["sh_offset"], shdr["sh_size"])
         IN IF ~r.ok THEN [out |-> "err"]
            ELSE IF Bit(shdr["sh_flags"], SHF_COMPRESSED_BIT) = 0 THEN [out |-> "ok", start |-> r.start, len |-> r.len, chdr |-> None]
            ELSE LET c == ParseNat("chdr", eb.class, eb.little, FSub(f, r.start, r.len), 0)
                 IN IF ~c.ok THEN [out |-> "err"]
                    ELSE [out |-> "ok", start |-> r.start + c.off, len |-> r.len - c.off, chdr |-> Some([f |-> c.f])]

\* typed views: type check, then a view over section_data's bytes.  kind is the refused/accepted type.
TypedSection(f, eb, shdr, want, stream) ==
    IF Val(shdr["sh_type"]) # want THEN [out |-> "err", kind |-> "UnexpectedSectionType"]
    ELSE IF stream       \* the stream parser reads the raw range (no NOBITS / SHF_COMPRESSED handling)
         THEN LET r == Range(f, shdr["sh_offset"], shdr["sh_size"])
              IN IF r.ok THEN [out |-> "ok", start |-> r.start, len |-> r.len] ELSE [out |-> "err", kind |-> "range"]
         ELSE LET d == SectionData(f, eb, shdr)
              IN IF d.out = "ok" THEN [out |-> "ok", start |-> d.start, len |-> d.len] ELSE [out |-> "err", kind |-> "range"]

SegmentData(f, phdr) ==
    LET r == Range(f, phdr["p_offset"], phdr["p_filesz"])
    IN IF r.ok THEN [out |-> "ok", start |-> r.start, len |-> r.len] ELSE [out |-> "err"]
SegmentNotes(f, phdr) ==
    IF Val(phdr["p_type"]) # PT_NOTE THEN [out |-> "err", kind |-> "UnexpectedSegmentType"]
    ELSE LET d == SegmentData(f, phdr) IN IF d.out = "ok" THEN d ELSE [out |-> "err", kind |-> "range"]

\* notes of a region with positions relative to the file
ShiftR(rng, base) == IF rng[2] = 0 THEN rng ELSE <<rng[1] + base, rng[2]>>
ShiftNote(n, base) ==
    CASE n.k = "any" -> [n EXCEPT !.name = ShiftR(@, base), !.desc = ShiftR(@, base),
                                  !.name_str = IF @.out = "ok" THEN [@ EXCEPT !.s = ShiftR(@, base)] ELSE @]
      [] n.k = "buildid" -> [n EXCEPT !.desc = ShiftR(@, base)]
      [] OTHER -> n
NotesAt(f, eb, start, len, alignW) ==
    LET ns == Notes(eb.little, alignW, TLCEval(FSub(f, start, len)))     \* (TLCEval: the bytes are computed once, not at every recursion level)
    IN [i \in 1..Len(ns) |-> ShiftNote(ns[i], start)]

\* symbol_table / dynamic_symbol_table (elf_bytes.rs:608-705): first section of the type
\* stream = TRUE: entsize is validated after both ranges were loaded, sh_link out of range is an error
SymTab(f, eb, want) ==
    LET i == FirstShType(f, eb, want, 0)
    IN IF i < 0 THEN [out |-> "none"]
       ELSE LET s == ShdrAt(f, eb, i)
                ls == ShdrGet(f, eb, ZExt(s["sh_link"], 8))
            IN IF ~ls.ok THEN [out |-> "err"]
               ELSE IF Val(s["sh_entsize"]) # EntSz("sym", eb.class) THEN [out |-> "err", kind |-> "BadEntsize"]
               ELSE LET a == Range(f, s["sh_offset"], s["sh_size"])
                        b == Range(f, ls.f["sh_offset"], ls.f["sh_size"])
                    IN IF ~a.ok \/ ~b.ok THEN [out |-> "err"]
                       ELSE [out |-> "ok", sym |-> a, str |-> b]

\* dynamic (elf_bytes.rs:608-632): section if section headers exist, else PT_DYNAMIC
\* stream = TRUE: "exist" means non-empty, and sh_entsize is not validated
Dynamic(f, eb, stream) ==
    IF (IF stream THEN NSh(eb) > 0 ELSE eb.sh # <<>>)
    THEN LET i == FirstShType(f, eb, SHT_DYNAMIC, 0)
         IN IF i < 0 THEN [out |-> "none"]
            ELSE LET s == ShdrAt(f, eb, i)
                 IN IF ~stream /\ Val(s["sh_entsize"]) # EntSz("dyn", eb.class) THEN [out |-> "err", kind |-> "BadEntsize"]
                    ELSE LET d == IF stream THEN (LET r == Range(f, s["sh_offset"], s["sh_size"])
                                                  IN IF r.ok THEN [out |-> "ok", start |-> r.start, len |-> r.len] ELSE [out |-> "err"])
                                  ELSE SectionData(f, eb, s)
                         IN IF d.out = "ok" THEN [out |-> "ok", start |-> d.start, len |-> d.len] ELSE [out |-> "err"]
    ELSE IF NPh(eb) > 0
    THEN LET i == FirstPhType(f, eb, PT_DYNAMIC, 0)
         IN IF i < 0 THEN [out |-> "none"]
            ELSE LET r == Range(f, PhdrAt(f, eb, i)["p_offset"], PhdrAt(f, eb, i)["p_filesz"])
                 IN IF r.ok THEN [out |-> "ok", start |-> r.start, len |-> r.len] ELSE [out |-> "err"]
    ELSE [out |-> "none"]

\* symbol_version_table (elf_bytes.rs:714-818): last section of each kind before all three were seen
RECURSIVE VerScan(_, _, _, _, _, _)
VerScan(f, eb, i, vs, vn, vd) ==
    IF i >= NSh(eb) \/ (vs >= 0 /\ vn >= 0 /\ vd >= 0) THEN <<vs, vn, vd>>
    ELSE LET t == ShdrAt(f, eb, i)["sh_type"]
         IN VerScan(f, eb, i + 1, IF t = W_VERSYM THEN i ELSE vs,
                    IF t = W_VERSYM THEN vn ELSE IF t = W_VERNEED THEN i ELSE vn,
                    IF t = W_VERSYM \/ t = W_VERNEED THEN vd ELSE IF t = W_VERDEF THEN i ELSE vd)

\* [out, versym (range), need/def = <<>> or [r (range), count, str (range)]]
VerPart(f, eb, i) ==
    IF i < 0 THEN [ok |-> TRUE, v |-> <<>>]
    ELSE LET s == ShdrAt(f, eb, i)
             r == Range(f, s["sh_offset"], s["sh_size"])
             ls == ShdrGet(f, eb, ZExt(s["sh_link"], 8))
         IN IF ~r.ok \/ ~ls.ok THEN [ok |-> FALSE]
            ELSE LET sr == Range(f, ls.f["sh_offset"], ls.f["sh_size"])
                 IN IF ~sr.ok THEN [ok |-> FALSE]
                    ELSE [ok |-> TRUE, v |-> [r |-> r, count |-> ZExt(s["sh_info"], 8), str |-> sr]]
SymVerTable(f, eb) ==
    IF NSh(eb) = 0 THEN [out |-> "none"]
    ELSE LET sc == VerScan(f, eb, 0, -1, -1, -1)
         IN IF sc[1] < 0 THEN [out |-> "none"]
            ELSE LET vs == ShdrAt(f, eb, sc[1])
                     vr == Range(f, vs["sh_offset"], vs["sh_size"])
                     n == VerPart(f, eb, sc[2])
                     d == VerPart(f, eb, sc[3])
                 IN IF Val(vs["sh_entsize"]) # 2 \/ ~vr.ok \/ ~n.ok \/ ~d.ok THEN [out |-> "err"]
                    ELSE [out |-> "ok", versym |-> vr, need |-> n.v, def |-> d.v]

\* the tables a SymVerTable result designates, in the shape SymVer.tla's operators take
SvArgs(f, eb, t) ==
    [class |-> eb.class, little |-> eb.little, versym |-> FSub(f, t.versym.start, t.versym.len),
     need |-> IF t.need = <<>> THEN <<>> ELSE [buf |-> FSub(f, t.need.r.start, t.need.r.len), count |-> t.need.count,
                                               str |-> FSub(f, t.need.str.start, t.need.str.len)],
     def |-> IF t.def = <<>> THEN <<>> ELSE [buf |-> FSub(f, t.def.r.start, t.def.r.len), count |-> t.def.count,
                                             str |-> FSub(f, t.def.str.start, t.def.str.len)]]

\* find_common_data (elf_bytes.rs:361-428): one pass, the LAST section of a kind wins; PT_DYNAMIC
\* fallback when no SHT_DYNAMIC section was seen.  Result: record of ranges (or <<>>) or "err".
RECURSIVE CommonScan(_, _, _, _)
CommonScan(f, eb, i, acc) ==
    IF ~acc.ok \/ i >= NSh(eb) THEN acc
    ELSE LET s == ShdrAt(f, eb, i)
             t == Val(s["sh_type"])
             r == Range(f, s["sh_offset"], s["sh_size"])
         IN IF t \in {SHT_SYMTAB, SHT_DYNSYM}
            THEN LET ls == ShdrGet(f, eb, ZExt(s["sh_link"], 8))
                 IN IF ~ls.ok \/ Val(s["sh_entsize"]) # EntSz("sym", eb.class) \/ ~r.ok
                       \/ ~Range(f, ls.f["sh_offset"], ls.f["sh_size"]).ok
                    THEN [acc EXCEPT !.ok = FALSE]
                    ELSE LET sr == Range(f, ls.f["sh_offset"], ls.f["sh_size"])
                         IN CommonScan(f, eb, i + 1,
                                       IF t = SHT_SYMTAB THEN [acc EXCEPT !.symtab = r, !.symtab_strs = sr]
                                       ELSE [acc EXCEPT !.dynsyms = r, !.dynsyms_strs = sr])
            ELSE IF t = SHT_DYNAMIC
            THEN IF Val(s["sh_entsize"]) # EntSz("dyn", eb.class) THEN [acc EXCEPT !.ok = FALSE]
                 ELSE LET d == SectionData(f, eb, s)
                      IN IF d.out # "ok" THEN [acc EXCEPT !.ok = FALSE]
                         ELSE CommonScan(f, eb, i + 1, [acc EXCEPT !.dynamic = [ok |-> TRUE, start |-> d.start, len |-> d.len]])
            ELSE IF t = SHT_HASH
            THEN IF ~r.ok \/ ~SysvNew(eb.little, FSub(f, r.start, r.len)).ok THEN [acc EXCEPT !.ok = FALSE]
                 ELSE CommonScan(f, eb, i + 1, [acc EXCEPT !.sysv_hash = r])
            ELSE IF s["sh_type"] = W_GNU_HASH
            THEN IF ~r.ok \/ ~GnuNew(eb.class, eb.little, FSub(f, r.start, r.len)).ok THEN [acc EXCEPT !.ok = FALSE]
                 ELSE CommonScan(f, eb, i + 1, [acc EXCEPT !.gnu_hash = r])
            ELSE CommonScan(f, eb, i + 1, acc)

CommonData(f, eb) ==
    LET a == CommonScan(f, eb, 0, [ok |-> TRUE, symtab |-> <<>>, symtab_strs |-> <<>>, dynsyms |-> <<>>,
                                   dynsyms_strs |-> <<>>, dynamic |-> <<>>, sysv_hash |-> <<>>, gnu_hash |-> <<>>])
    IN IF ~a.ok THEN a
       ELSE IF a.dynamic = <<>> /\ NPh(eb) > 0
       THEN LET i == FirstPhType(f, eb, PT_DYNAMIC, 0)
            IN IF i < 0 THEN a
               ELSE LET r == Range(f, PhdrAt(f, eb, i)["p_offset"], PhdrAt(f, eb, i)["p_filesz"])
                    IN IF r.ok THEN [a EXCEPT !.dynamic = r] ELSE [a EXCEPT !.ok = FALSE]
       ELSE a
=============================================================================
