-------------------------------- MODULE Bulk --------------------------------
(* Long histories on one stream object, compactly.  A bulk event performs n caller-made
   section_data reads of n DISTINCT ranges of the file (range k = [k % m, k % m + 1 + k \div m)),
   and logs how many succeeded and a checksum of all the bytes returned; the specification
   computes the same two numbers from the file.  This puts an ElfStream in a state with a chosen
   number of cached ranges (around 2^5 .. 2^16) at the cost of one event, so that the accessors
   which load several ranges before using them can be observed at every such size.
   B(i) is the file's byte accessor (0-based). *)
EXTENDS Naturals, Sequences
LOCAL INSTANCE SequencesExt

BulkOff(k, m) == k % m
BulkSize(k, m) == 1 + (k \div m)

SumR(B(_), off, size) == FoldLeft(LAMBDA a, i : a + B(off + i - 1), 0, [i \in 1..size |-> i])

\* <<number of reads that succeed, checksum of the bytes they return>>
BulkExp(B(_), flen, n, m) ==
    FoldLeft(LAMBDA acc, k :
                 LET off == BulkOff(k - 1, m) size == BulkSize(k - 1, m)
                 IN IF off + size <= flen THEN <<acc[1] + 1, (acc[2] + SumR(B, off, size)) % 65521>> ELSE acc,
             <<0, 0>>, [k \in 1..n |-> k])

\* the long-range variant (every range size0 bytes longer, no checksum): how many of the n reads fit in the file
BulkNok(flen, n, m, size0) ==
    FoldLeft(LAMBDA acc, k : IF BulkOff(k - 1, m) + size0 + BulkSize(k - 1, m) <= flen THEN acc + 1 ELSE acc, 0, [k \in 1..n |-> k])
=============================================================================
