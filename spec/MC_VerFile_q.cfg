INIT Init
NEXT Next
INVARIANT Inv
CONSTANTS
 Encs = {2, 3}
 Layouts = {1}
 Orders = {1, 2}
CHECK_DEADLOCK FALSE
