INIT Init
NEXT Next
INVARIANT Inv
CONSTANTS
 K = 40
CHECK_DEADLOCK FALSE
