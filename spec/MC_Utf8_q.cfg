INIT Init
NEXT Next
INVARIANT Inv
CONSTANTS
 MaxLen = 3
CHECK_DEADLOCK FALSE
