INIT Init
NEXT Next
INVARIANT Inv
CONSTANTS
 Pool = {0, 1, 127, 128, 255}
 FullU16 = TRUE
CHECK_DEADLOCK FALSE
