-------------------------------- MODULE Abi --------------------------------
(***************************************************************************)
(* The ABI side, written from the System V gABI, the GNU symbol-versioning *)
(* and GNU-hash documents -- NOT from the crate's source.  C structure     *)
(* layouts (field, width, signedness) per class, the packed-field macros,  *)
(* encoders, and the native (bit-width agnostic) representation the crate  *)
(* promises: unsigned fields zero-extended, signed fields sign-extended.   *)
(***************************************************************************)
EXTENDS Words

Structs == {"shdr", "phdr", "sym", "rel", "rela", "dyn", "chdr", "abitag", "sysvhdr",
            "gnuhdr", "u32", "u64", "versym", "verdef", "verdaux", "verneed", "vernaux",
            "tail", "nhdr"}

\* <<field, width in bytes, "u" | "s">> in ABI (C declaration) order
CLayout(ty, class) ==
  CASE ty = "shdr" /\ class = 32 ->
         << <<"sh_name",4,"u">>, <<"sh_type",4,"u">>, <<"sh_flags",4,"u">>, <<"sh_addr",4,"u">>,
            <<"sh_offset",4,"u">>, <<"sh_size",4,"u">>, <<"sh_link",4,"u">>, <<"sh_info",4,"u">>,
            <<"sh_addralign",4,"u">>, <<"sh_entsize",4,"u">> >>
    [] ty = "shdr" /\ class = 64 ->
         << <<"sh_name",4,"u">>, <<"sh_type",4,"u">>, <<"sh_flags",8,"u">>, <<"sh_addr",8,"u">>,
            <<"sh_offset",8,"u">>, <<"sh_size",8,"u">>, <<"sh_link",4,"u">>, <<"sh_info",4,"u">>,
            <<"sh_addralign",8,"u">>, <<"sh_entsize",8,"u">> >>
    [] ty = "phdr" /\ class = 32 ->
         << <<"p_type",4,"u">>, <<"p_offset",4,"u">>, <<"p_vaddr",4,"u">>, <<"p_paddr",4,"u">>,
            <<"p_filesz",4,"u">>, <<"p_memsz",4,"u">>, <<"p_flags",4,"u">>, <<"p_align",4,"u">> >>
    [] ty = "phdr" /\ class = 64 ->
         << <<"p_type",4,"u">>, <<"p_flags",4,"u">>, <<"p_offset",8,"u">>, <<"p_vaddr",8,"u">>,
            <<"p_paddr",8,"u">>, <<"p_filesz",8,"u">>, <<"p_memsz",8,"u">>, <<"p_align",8,"u">> >>
    [] ty = "sym" /\ class = 32 ->
         << <<"st_name",4,"u">>, <<"st_value",4,"u">>, <<"st_size",4,"u">>, <<"st_info",1,"u">>,
            <<"st_other",1,"u">>, <<"st_shndx",2,"u">> >>
    [] ty = "sym" /\ class = 64 ->
         << <<"st_name",4,"u">>, <<"st_info",1,"u">>, <<"st_other",1,"u">>, <<"st_shndx",2,"u">>,
            <<"st_value",8,"u">>, <<"st_size",8,"u">> >>
    [] ty = "rel" /\ class = 32 -> << <<"r_offset",4,"u">>, <<"r_info",4,"u">> >>
    [] ty = "rel" /\ class = 64 -> << <<"r_offset",8,"u">>, <<"r_info",8,"u">> >>
    [] ty = "rela" /\ class = 32 -> << <<"r_offset",4,"u">>, <<"r_info",4,"u">>, <<"r_addend",4,"s">> >>
    [] ty = "rela" /\ class = 64 -> << <<"r_offset",8,"u">>, <<"r_info",8,"u">>, <<"r_addend",8,"s">> >>
    [] ty = "dyn" /\ class = 32 -> << <<"d_tag",4,"s">>, <<"d_un",4,"u">> >>
    [] ty = "dyn" /\ class = 64 -> << <<"d_tag",8,"s">>, <<"d_un",8,"u">> >>
    [] ty = "chdr" /\ class = 32 -> << <<"ch_type",4,"u">>, <<"ch_size",4,"u">>, <<"ch_addralign",4,"u">> >>
    [] ty = "chdr" /\ class = 64 ->
         << <<"ch_type",4,"u">>, <<"ch_reserved",4,"u">>, <<"ch_size",8,"u">>, <<"ch_addralign",8,"u">> >>
    [] ty = "abitag" -> << <<"os",4,"u">>, <<"major",4,"u">>, <<"minor",4,"u">>, <<"subminor",4,"u">> >>
    [] ty = "sysvhdr" -> << <<"nbucket",4,"u">>, <<"nchain",4,"u">> >>
    [] ty = "gnuhdr" -> << <<"nbucket",4,"u">>, <<"table_start_idx",4,"u">>, <<"nbloom",4,"u">>,
                           <<"nshift",4,"u">> >>
    [] ty = "u32" -> << <<"v",4,"u">> >>
    [] ty = "u64" -> << <<"v",8,"u">> >>
    [] ty = "versym" -> << <<"v",2,"u">> >>
    [] ty = "verdef" ->
         << <<"vd_version",2,"u">>, <<"vd_flags",2,"u">>, <<"vd_ndx",2,"u">>, <<"vd_cnt",2,"u">>,
            <<"vd_hash",4,"u">>, <<"vd_aux",4,"u">>, <<"vd_next",4,"u">> >>
    [] ty = "verdaux" -> << <<"vda_name",4,"u">>, <<"vda_next",4,"u">> >>
    [] ty = "verneed" ->
         << <<"vn_version",2,"u">>, <<"vn_cnt",2,"u">>, <<"vn_file",4,"u">>, <<"vn_aux",4,"u">>,
            <<"vn_next",4,"u">> >>
    [] ty = "vernaux" ->
         << <<"vna_hash",4,"u">>, <<"vna_flags",2,"u">>, <<"vna_other",2,"u">>, <<"vna_name",4,"u">>,
            <<"vna_next",4,"u">> >>
    [] ty = "nhdr" -> << <<"n_namesz",4,"u">>, <<"n_descsz",4,"u">>, <<"n_type",4,"u">> >>
    [] ty = "tail" /\ class = 32 ->
         << <<"e_type",2,"u">>, <<"e_machine",2,"u">>, <<"version",4,"u">>, <<"e_entry",4,"u">>,
            <<"e_phoff",4,"u">>, <<"e_shoff",4,"u">>, <<"e_flags",4,"u">>, <<"e_ehsize",2,"u">>,
            <<"e_phentsize",2,"u">>, <<"e_phnum",2,"u">>, <<"e_shentsize",2,"u">>, <<"e_shnum",2,"u">>,
            <<"e_shstrndx",2,"u">> >>
    [] ty = "tail" /\ class = 64 ->
         << <<"e_type",2,"u">>, <<"e_machine",2,"u">>, <<"version",4,"u">>, <<"e_entry",8,"u">>,
            <<"e_phoff",8,"u">>, <<"e_shoff",8,"u">>, <<"e_flags",4,"u">>, <<"e_ehsize",2,"u">>,
            <<"e_phentsize",2,"u">>, <<"e_phnum",2,"u">>, <<"e_shentsize",2,"u">>, <<"e_shnum",2,"u">>,
            <<"e_shstrndx",2,"u">> >>

RECURSIVE SumW(_, _)
SumW(lay, i) == IF i > Len(lay) THEN 0 ELSE lay[i][2] + SumW(lay, i + 1)
CSize(ty, class) == SumW(CLayout(ty, class), 1)

\* offset of the i-th field in the C structure (natural alignment holds with no padding for
\* every ELF structure, which is itself an ABI fact checked against size_of/offset_of, C19)
RECURSIVE COff(_, _)
COff(lay, i) == IF i = 1 THEN 0 ELSE COff(lay, i - 1) + lay[i - 1][2]

FieldIdx(lay, name) == CHOOSE i \in 1..Len(lay) : lay[i][1] = name
HasField(lay, name) == \E i \in 1..Len(lay) : lay[i][1] = name
WidthIn(ty, class, name) == LET lay == CLayout(ty, class) IN lay[FieldIdx(lay, name)][2]
NatWidth(ty, name) == LET a == IF HasField(CLayout(ty, 32), name) THEN WidthIn(ty, 32, name) ELSE 0
                          b == IF HasField(CLayout(ty, 64), name) THEN WidthIn(ty, 64, name) ELSE 0
                      IN IF a > b THEN a ELSE b

\* Encode a record of field values (little-endian words of at least the field width) as the
\* on-disk bytes of the structure.
RECURSIVE EncFrom(_, _, _, _)
EncFrom(lay, i, little, vals) ==
    IF i > Len(lay) THEN <<>>
    ELSE LET w == lay[i][2]
             v == ZExt(vals[lay[i][1]], w)
         IN (IF little THEN v ELSE Rev(v)) \o EncFrom(lay, i + 1, little, vals)
Enc(ty, class, little, vals) == EncFrom(CLayout(ty, class), 1, little, vals)

\* The native value the crate must present for ABI field values vals (words of the C width):
\* every field widened to the class-independent width, by sign for "s" fields.
Ext(ty, class, vals) ==
    LET lay == CLayout(ty, class)
    IN [n \in {lay[i][1] : i \in 1..Len(lay)} |->
           LET i == FieldIdx(lay, n)
               v == ZExt(vals[n], lay[i][2])
           IN IF lay[i][3] = "s" THEN SExt(v, NatWidth(ty, n)) ELSE ZExt(v, NatWidth(ty, n))]

\* ABI macros on words
ELF32_R_SYM(info)  == <<info[2], info[3], info[4], 0>>          \* (i) >> 8
ELF32_R_TYPE(info) == <<info[1], 0, 0, 0>>                      \* (unsigned char)(i)
ELF64_R_SYM(info)  == <<info[5], info[6], info[7], info[8]>>    \* (i) >> 32
ELF64_R_TYPE(info) == <<info[1], info[2], info[3], info[4]>>    \* (i) & 0xffffffff
ST_BIND(info)  == info \div 16
ST_TYPE(info)  == info % 16
ST_VISIBILITY(other) == other % 4
SHN_UNDEF == 0
VER_NDX(v)    == <<v[1], v[2] % 128>>       \* low 15 bits
VER_HIDDEN(v) == v[2] >= 128                \* bit 15

=============================================================================
