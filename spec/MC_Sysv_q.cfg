INIT Init
NEXT Next
INVARIANT Inv
CONSTANTS
 Kind = "sysv"
 Encs = {2, 3}
 Buckets = {1, 2, 3}
 Blooms = {1}
 Shifts = {0}
 SymOffs = {1}
 MaxNames = 3
 PoolSel = "base"
CHECK_DEADLOCK FALSE
