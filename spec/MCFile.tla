------------------------------- MODULE MCFile -------------------------------
(* Shared by the whole-file bounded instances: expected results (in the recorded JSON shape) of
   open and of every query on a TLA+-built file, and session emission. *)
EXTENDS FileSem, Build, Json

F(bytes) == [len |-> Len(bytes), dense |-> TRUE, bytes |-> bytes]
AllIdx(n) == [i \in 1..n |-> W8(i - 1)]

OpenExp(f, es) ==
    LET o == Open(f, es)
    IN IF ~o.ok THEN [out |-> "err"]
       ELSE LET fake == [res |-> [sh |-> [idx |-> AllIdx(NSh(o))], ph |-> [idx |-> AllIdx(NPh(o))]]]
            IN [out |-> "ok"] @@ OpenDet(f, o, fake, FALSE)

\* index lists the recorder would choose (all entries; tables are small here)
FakeRes(f, eb, q) ==
    LET n == q.name IN
    CASE n \in {"symbol_table", "dynamic_symbol_table"} ->
            (LET t == SymTab(f, eb, IF n = "symbol_table" THEN SHT_SYMTAB ELSE SHT_DYNSYM)
             IN [sym |-> [idx |-> AllIdx(TblLen("sym", eb.class, FSub(f, t.sym.start, t.sym.len)))]])
      [] n = "dynamic" ->
            (LET d == Dynamic(f, eb, FALSE) IN [tbl |-> [idx |-> AllIdx(TblLen("dyn", eb.class, FSub(f, d.start, d.len)))]])
      [] n = "find_common_data" ->
            (LET c == CommonData(f, eb)
                 I(r, ty) == IF r = <<>> THEN [idx |-> <<>>] ELSE [idx |-> AllIdx(TblLen(ty, eb.class, FSub(f, r.start, r.len)))]
             IN [symtab |-> I(c.symtab, "sym"), dynsyms |-> I(c.dynsyms, "sym"), dynamic |-> I(c.dynamic, "dyn")])
      [] OTHER -> [x \in {} |-> 0]

QExp(f, eb, q) ==
    LET o == QOut(f, eb, q, FALSE)
    IN IF Unjudged(f, eb, q) THEN [x \in {} |-> 0]            \* several sections of one kind: no property fixes the answer
       ELSE IF o # "ok" THEN [out |-> o]
       ELSE LET e == q @@ [res |-> FakeRes(f, eb, q)]
                d == QDet(f, eb, e, FALSE)
            IN IF q.name = "find_common_data"
               THEN [out |-> "ok"] @@ d @@ [sysv |-> [some |-> CommonData(f, eb).sysv_hash # <<>>],
                                            gnu |-> [some |-> CommonData(f, eb).gnu_hash # <<>>]]
               ELSE [out |-> "ok"] @@ d

\* one emitted case = one session: buffer, open, queries (each with its expected result)
Session(bytes, es, qs, extra) ==
    LET f == F(bytes)
        o == Open(f, es)
    IN [ops |-> << [op |-> "session"] @@ extra,
                   [op |-> "buf", slot |-> "file", bytes |-> bytes],
                   [op |-> "open", es |-> es, fileslot |-> "file", exp |-> OpenExp(f, es)] >>
               \o (IF o.ok THEN [i \in 1..Len(qs) |-> [op |-> "q"] @@ qs[i] @@ [exp |-> QExp(f, o, qs[i])]] ELSE <<>>)]

\* caller-made headers as the recorder writes them
ShdrJ(type, flags, off, size, link, info, align, entsize) ==
    [sh_name |-> W4(0), sh_type |-> type, sh_flags |-> flags, sh_addr |-> W8(0), sh_offset |-> off, sh_size |-> size,
     sh_link |-> W4(link), sh_info |-> W4(info), sh_addralign |-> W8(align), sh_entsize |-> W8(entsize)]
PhdrJ(type, off, filesz, memsz, align) ==
    [p_type |-> W4(type), p_offset |-> off, p_vaddr |-> W8(0), p_paddr |-> W8(0), p_filesz |-> filesz, p_memsz |-> memsz,
     p_flags |-> W4(4), p_align |-> W8(align)]
=============================================================================
