------------------------------ MODULE VerBuild ------------------------------
(* Encoders for versioned objects, from the GNU symbol-versioning description: version models and their
   .gnu.version_r / .gnu.version_d bytes in two layouts.  Shared by MC_SymVer (stand-alone table) and
   MC_VerFile (the same models inside a built object, through ElfBytes). *)
EXTENDS SymVer, Abi

VEncOf(k) == CASE k = 1 -> <<32, TRUE>> [] k = 2 -> <<32, FALSE>> [] k = 3 -> <<64, TRUE>> [] k = 4 -> <<64, FALSE>>
VW32(n, l) == IF l THEN W4(n) ELSE Rev(W4(n))
VW16(n, l) == IF l THEN W2(n) ELSE Rev(W2(n))
RECURSIVE VCat(_, _)
VCat(seqs, n) == IF n = 0 THEN <<>> ELSE VCat(seqs, n - 1) \o seqs[n]

\* names are single distinct letters; the string table is "\0a\0b\0..." so name k sits at offset 2k-1
Nm(k) == <<96 + k>>
NmOff(k) == 2 * k - 1
StrTabB == <<0>> \o VCat([k \in 1..14 |-> <<96 + k, 0>>], 14)

\* ---- models: nNeeds files with na1 / na2 auxes, nDefs definitions with nd1 / nd2 names ----------------
\* need aux j of file i gets index 2 + (number of earlier auxes) + nDefs ; def d gets index 1 + d  (1-based d)
Model(nn, na1, na2, nd, dn1, dn2, vs, ib) ==
    LET NA(i) == IF i = 1 THEN na1 ELSE na2
        DN(d) == IF d = 1 THEN dn1 ELSE dn2
        auxIdx(i, j) == ib + 1 + nd + (IF i = 1 THEN 0 ELSE na1) + j
        needs == [i \in 1..nn |-> [file |-> Nm(i),
                                   auxs |-> [j \in 1..NA(i) |-> [name |-> Nm(2 + 2 * i + j), hash |-> W4(1000 * i + j),
                                                                 flags |-> W2(j), other |-> W2(auxIdx(i, j))]]]]
        defs == [d \in 1..nd |-> [ndx |-> W2(ib + 1 + d), flags |-> W2(d - 1), hash |-> W4(77 * d),
                                  names |-> [k \in 1..DN(d) |-> Nm(8 + 2 * d + k)]]]
    IN [versym |-> vs, needs |-> needs, defs |-> defs]

\* positions of the records: layout 1 = contiguous, 2 = all records first then all auxes
NeedPos(m, lay) ==
    LET nn == Len(m.needs)
        NA(i) == Len(m.needs[i].auxs)
        recAt(i) == IF lay = 2 THEN 16 * (i - 1)
                    ELSE 16 * (i - 1) + 16 * (IF i > 1 THEN NA(1) ELSE 0)
        auxAt(i, j) == IF lay = 2 THEN 16 * nn + 16 * ((IF i > 1 THEN NA(1) ELSE 0) + j - 1)
                       ELSE recAt(i) + 16 * j
    IN [rec |-> [i \in 1..nn |-> recAt(i)], aux |-> [i \in 1..nn |-> [j \in 1..NA(i) |-> auxAt(i, j)]],
        total |-> 16 * nn + 16 * ((IF nn >= 1 THEN NA(1) ELSE 0) + (IF nn >= 2 THEN NA(2) ELSE 0))]

VPutAt(b, off, w) == [i \in 1..Len(b) |-> IF i > off /\ i <= off + Len(w) THEN w[i - off] ELSE b[i]]
RECURSIVE VPutAll(_, _, _)
VPutAll(b, items, k) == IF k > Len(items) THEN b ELSE VPutAll(VPutAt(b, items[k][1], items[k][2]), items, k + 1)

NmIdxOf(n) == n[1] - 96
VWd4(w, l) == IF l THEN w ELSE Rev(w)
VWd2(w, l) == IF l THEN w ELSE Rev(w)
EncNeeds(m, lay, l) ==
    LET p == NeedPos(m, lay)
        nn == Len(m.needs)
        recs == [i \in 1..nn |->
                   <<p.rec[i], VW16(1, l) \o VW16(Len(m.needs[i].auxs), l) \o VW32(NmOff(NmIdxOf(m.needs[i].file)), l)
                               \o VW32(IF Len(m.needs[i].auxs) = 0 THEN 0 ELSE p.aux[i][1] - p.rec[i], l)
                               \o VW32(IF i < nn THEN p.rec[i + 1] - p.rec[i] ELSE 0, l)>>]
        auxes == VCat([i \in 1..nn |->
                   [j \in 1..Len(m.needs[i].auxs) |->
                      LET a == m.needs[i].auxs[j]
                      IN <<p.aux[i][j], VWd4(a.hash, l) \o VWd2(a.flags, l) \o VWd2(a.other, l) \o VW32(NmOff(NmIdxOf(a.name)), l)
                                        \o VW32(IF j < Len(m.needs[i].auxs) THEN p.aux[i][j + 1] - p.aux[i][j] ELSE 0, l)>>]], nn)
    IN VPutAll([i \in 1..p.total |-> 238], recs \o auxes, 1)

DefPos(m, lay) ==
    LET nd == Len(m.defs)
        DN(d) == Len(m.defs[d].names)
        recAt(d) == IF lay = 2 THEN 20 * (d - 1) ELSE 20 * (d - 1) + 8 * (IF d > 1 THEN DN(1) ELSE 0)
        auxAt(d, k) == IF lay = 2 THEN 20 * nd + 8 * ((IF d > 1 THEN DN(1) ELSE 0) + k - 1) ELSE recAt(d) + 20 + 8 * (k - 1)
    IN [rec |-> [d \in 1..nd |-> recAt(d)], aux |-> [d \in 1..nd |-> [k \in 1..DN(d) |-> auxAt(d, k)]],
        total |-> 20 * nd + 8 * ((IF nd >= 1 THEN DN(1) ELSE 0) + (IF nd >= 2 THEN DN(2) ELSE 0))]
EncDefs(m, lay, l, dd) ==        \* dd: added to every name offset (the definitions' own string table)
    LET p == DefPos(m, lay)
        nd == Len(m.defs)
        recs == [d \in 1..nd |->
                   LET x == m.defs[d]
                   IN <<p.rec[d], VW16(1, l) \o VWd2(x.flags, l) \o VWd2(x.ndx, l) \o VW16(Len(x.names), l) \o VWd4(x.hash, l)
                                  \o VW32(IF Len(x.names) = 0 THEN 0 ELSE p.aux[d][1] - p.rec[d], l)
                                  \o VW32(IF d < nd THEN p.rec[d + 1] - p.rec[d] ELSE 0, l)>>]
        auxes == VCat([d \in 1..nd |->
                   [k \in 1..Len(m.defs[d].names) |->
                      <<p.aux[d][k], VW32(NmOff(NmIdxOf(m.defs[d].names[k])) + dd, l)
                                     \o VW32(IF k < Len(m.defs[d].names) THEN p.aux[d][k + 1] - p.aux[d][k] ELSE 0, l)>>]], nd)
    IN VPutAll([i \in 1..p.total |-> 238], recs \o auxes, 1)

\* versym entries: local, global, each listed index, an unlisted one; plain and hidden
VsPool(nd, ntot, ib) == LET base == {0, 1} \cup ((ib + 2)..(ib + 1 + nd + ntot)) \cup {ib + 1 + nd + ntot + 3}
                    IN { W2(v) : v \in base } \cup { <<v % 256, 128 + (v \div 256)>> : v \in base }
=============================================================================
