INIT Init
NEXT Next
INVARIANT Inv
CONSTANTS
 MaxLen = 4
CHECK_DEADLOCK FALSE
