------------------------------ MODULE MC_Utf8 ------------------------------
(* C15, get(): which byte strings are UTF-8.  Every string of up to MaxLen bytes over the boundary
   bytes of the encoding (RFC 3629 / Unicode table 3-7: the ends of every lead-byte class and of
   every restricted continuation range) is placed in a table followed by a NUL; get(0) must succeed
   exactly when the string is well-formed.  The two formulations of well-formedness in StrTab.tla
   (recursive, automaton) must agree on every one of them. *)
EXTENDS StrTab, Json
CONSTANTS MaxLen

Edge == {1, 127, 128, 143, 144, 159, 160, 191, 192, 193, 194, 223, 224, 225, 236, 237, 238, 239, 240, 241, 243, 244, 245, 255}
VARIABLE s
Init == s = <<>>
Next == Len(s) < MaxLen /\ \E b \in Edge : s' = Append(s, b)

Tab == s \o <<0>>
Z8 == W8(0)
Prop == /\ IsUtf8(s) = IsUtf8Rec(s)
        /\ Get(Tab, Z8).ok = IsUtf8(s)
        /\ GetRaw(Tab, Z8) = [ok |-> TRUE, start |-> 0, len |-> Len(s)]
Exp == LET r == Get(Tab, Z8) IN IF r.ok THEN [out |-> "ok", s |-> RangeJ(r.start, r.len), n |-> r.len] ELSE [out |-> "err"]
Emit == PrintT(ToJson([op |-> "str_get", buf |-> Tab, off |-> Z8, exp |-> Exp]))
Inv == Prop /\ Emit
=============================================================================
