INIT Init
NEXT Next
INVARIANT Inv
CONSTANTS
 MaxLen = 5
 Alphabet = {0, 97, 195, 169}
CHECK_DEADLOCK FALSE
