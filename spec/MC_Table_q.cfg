INIT Init
NEXT Next
INVARIANT Inv
CONSTANTS
 ScriptLen = 2
 TableTypes = {"sym", "rel", "rela", "dyn", "u32", "u64", "versym"}
CHECK_DEADLOCK FALSE
