INIT Init
NEXT Next
INVARIANT Inv
CONSTANTS
 ScriptLen = 2
 TableTypes = {"sym", "rel", "rela", "dyn", "u32", "versym"}
CHECK_DEADLOCK FALSE
