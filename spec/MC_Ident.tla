----------------------------- MODULE MC_Ident -----------------------------
(* C10, exhaustive: all EI_DATA / EI_CLASS / EI_VERSION values, magic corruptions, short buffers,
   against the four byte-order specifications. *)
EXTENDS Header, Json
CONSTANTS MagicPool

Good(class, data) == <<127, 69, 76, 70, class, data, 1, 3, 9, 0, 0, 0, 0, 0, 0, 0>>
Set(buf, i, v) == [buf EXCEPT ![i] = v]
Specs == {"LE", "BE", "Any", "Native"}

Idents ==
    { Set(Good(c, 1), 6, v) : c \in {1, 2}, v \in 0..255 } \cup             \* EI_DATA
    { Set(Good(1, d), 5, v) : d \in {1, 2}, v \in 0..255 } \cup             \* EI_CLASS
    { Set(Good(2, d), 7, v) : d \in {1, 2}, v \in 0..255 } \cup             \* EI_VERSION
    { Set(Good(2, 1), i, v) : i \in 1..4, v \in 0..255 } \cup               \* single-byte magic corruption
    { <<a, b, c, d>> \o SubSeq(Good(1, 2), 5, 16) : a \in MagicPool, b \in MagicPool, c \in MagicPool, d \in MagicPool } \cup
    { Set(Set(Good(1, 1), 5, x), 6, y) : x \in {0, 1, 3}, y \in {0, 2, 3} } \cup   \* two defects
    { SubSeq(Good(2, 1), 1, n) : n \in 0..15 } \cup                          \* short buffers
    { Good(2, 1) \o <<1, 2, 3>> }

VARIABLE c
Init == c \in { [spec |-> s, buf |-> b] : s \in Specs, b \in Idents }
Next == UNCHANGED c

\* the operational parser satisfies the declarative property
Res == LET r == ParseIdent(c.spec, c.buf)
       IN IF r.ok THEN [out |-> "ok", little |-> r.little, class |-> r.class, osabi |-> r.osabi,
                        abiversion |-> r.abiversion]
          ELSE IF Len(c.buf) >= 16 /\ Cardinality(Defects(c.spec, c.buf)) = 1
               THEN [out |-> "err", kind |-> r.kind, payload |-> r.payload]
          ELSE [out |-> "err"]
Prop_C10 ==
    LET r == ParseIdent(c.spec, c.buf)
        j == IF r.ok THEN Res ELSE [out |-> "err", kind |-> r.kind, payload |-> IF "payload" \in DOMAIN r THEN r.payload ELSE <<>>]
    IN /\ IdentResOk(c.spec, c.buf, j)
       \* a spec opens a file only if EI_DATA is in its set; Any then equals the matching fixed spec
       /\ (Len(c.buf) >= 16 /\ r.ok) => c.buf[6] \in Accepts(c.spec)
       /\ (c.spec = "Any" /\ r.ok) => ParseIdent(IF c.buf[6] = 1 THEN "LE" ELSE "BE", c.buf) = r
Emit == PrintT(ToJson([op |-> "ident", es |-> c.spec, buf |-> c.buf, exp |-> Res]))
Inv == Prop_C10 /\ Emit
=============================================================================
