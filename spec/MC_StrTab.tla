----------------------------- MODULE MC_StrTab -----------------------------
(* C15, exhaustive: every table up to MaxLen bytes over an alphabet with NUL, ASCII, a UTF-8 lead
   byte and a continuation byte, every offset 0..len+2 (and usize::MAX). *)
EXTENDS StrTab, Json
CONSTANTS MaxLen, Alphabet

Tables == UNION { [1..n -> Alphabet] : n \in 0..MaxLen }
MaxW == [i \in 1..8 |-> 255]
VARIABLE c
Init == c \in { [buf |-> t, off |-> o, raw |-> r] :
                  t \in Tables, o \in {W8(k) : k \in 0..(MaxLen + 2)} \cup {MaxW}, r \in BOOLEAN }
                /\ (Val(c.off) = Huge \/ Val(c.off) <= Len(c.buf) + 2)
Next == UNCHANGED c

Prop_C15 ==
    LET raw == GetRaw(c.buf, c.off)
        g == Get(c.buf, c.off)
    IN /\ DeclRaw(c.buf, c.off, raw)
       /\ g.ok <=> (raw.ok /\ IsUtf8(SubSeq(c.buf, raw.start + 1, raw.start + raw.len)))
       /\ g.ok => (g.start = raw.start /\ g.len = raw.len)
       \* the iterative formulations used on long tables agree with the recursive reference ones
       /\ \A p \in 1..(Len(c.buf) + 1) : FirstNul(c.buf, p) = FirstNulRec(c.buf, p)
       /\ IsUtf8(c.buf) = IsUtf8Rec(c.buf)

Exp == LET r == IF c.raw THEN GetRaw(c.buf, c.off) ELSE Get(c.buf, c.off)
       IN IF r.ok THEN [out |-> "ok", s |-> RangeJ(r.start, r.len), n |-> r.len] ELSE [out |-> "err"]
Emit == PrintT(ToJson([op |-> IF c.raw THEN "str_get_raw" ELSE "str_get", buf |-> c.buf, off |-> c.off,
                       exp |-> Exp]))
Inv == Prop_C15 /\ Emit
=============================================================================
