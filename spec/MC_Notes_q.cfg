INIT Init
NEXT Next
INVARIANT Inv
CONSTANTS
 Aligns = {0, 1, 4, 3}
 MaxNotes = 2
 Cuts = {0, 1}
CHECK_DEADLOCK FALSE
