INIT Init
NEXT Next
INVARIANT Inv
CONSTANTS
 Kind = "sysv"
 Encs = {1, 2, 3, 4}
 Buckets = {1, 2, 3}
 Blooms = {1}
 Shifts = {0}
 SymOffs = {1}
 MaxNames = 4
 PoolSel = "base"
CHECK_DEADLOCK FALSE
