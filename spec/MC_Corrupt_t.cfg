INIT Init
NEXT Next
INVARIANT Inv
CONSTANTS
 Encodings = {1, 2, 3, 4, 6, 11}
CHECK_DEADLOCK FALSE
