INIT Init
NEXT Next
INVARIANT Inv
CONSTANTS
 Encodings = {1, 2, 3, 4}
CHECK_DEADLOCK FALSE
