INIT Init
NEXT Next
INVARIANT Inv
CONSTANTS
 K = 9
CHECK_DEADLOCK FALSE
