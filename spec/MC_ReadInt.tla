---------------------------- MODULE MC_ReadInt ----------------------------
(* C04, exhaustive small scope.  Init chooses a case; the invariant states the property on the
   operational ReadInt in declarative form and emits the case (with the predicted result) for
   replay against the implementation. *)
EXTENDS Parse, Json

CONSTANTS Pool,      \* byte values used for the bytes that are not enumerated exhaustively
          FullU16    \* TRUE: every 2-byte buffer at offset 0 (both orders)

ES == {"LE", "BE", "AnyL", "AnyB", "Native"}
IsLittle(es) == es \in {"LE", "AnyL", "Native"}

NearMax == { [i \in 1..8 |-> IF i = 1 THEN 255 - k ELSE 255] : k \in 0..8 }   \* usize::MAX-8 .. usize::MAX

\* buffers: every length 0..3 over Pool, and (optionally) all two-byte buffers
SmallBufs == UNION { [1..n -> Pool] : n \in 0..3 }
WideBufs  == { <<a, b, c, d, e, f, g, h, 170>> : a \in {1, 128}, b \in {2, 255}, c \in {3}, d \in {4, 200},
                                              e \in {5}, f \in {6}, g \in {7}, h \in {0, 8, 128, 255} }

Cases1 == { [buf |-> b, off |-> W8(o), w |-> w, es |-> es] :
              b \in SmallBufs, o \in 0..12, w \in {1, 2, 4}, es \in ES }
Cases2 == { [buf |-> b, off |-> o, w |-> w, es |-> es] :
              b \in SmallBufs, o \in NearMax, w \in {1, 2, 8}, es \in {"LE", "AnyB"} }
Cases3 == { [buf |-> b, off |-> W8(o), w |-> w, es |-> es, signed |-> sg] :
              b \in WideBufs, o \in 0..10, w \in {4, 8}, es \in ES, sg \in BOOLEAN }
Cases4 == IF FullU16 THEN { [buf |-> <<a, b>>, off |-> W8(0), w |-> 2, es |-> es] :
                              a \in 0..255, b \in 0..255, es \in {"LE", "BE"} }
          ELSE {}
CaseSet == Cases1 \cup Cases2 \cup Cases3 \cup Cases4

VARIABLE c
Init == c \in CaseSet
Next == UNCHANGED c

\* the property, declaratively: the returned integer's bytes, in the spec's order, are
\* buffer[offset..offset+width]; the cursor advances by exactly width; a failed read leaves it.
Fits(x) == Val(x.off) # Huge /\ Val(x.off) <= Len(x.buf) /\ Val(x.off) + x.w <= Len(x.buf)
Prop_C04 ==
    LET r == ReadInt(c.buf, c.off, c.w, IsLittle(c.es))
    IN IF Fits(c)
       THEN /\ r.ok
            /\ Len(r.val) = c.w
            /\ \A i \in 1..c.w :
                  r.val[i] = IF IsLittle(c.es) THEN c.buf[Val(c.off) + i]
                             ELSE c.buf[Val(c.off) + c.w + 1 - i]
            /\ Val(r.off) = Val(c.off) + c.w
       ELSE ~r.ok /\ r.off = c.off

\* run-time spec == compile-time spec
Prop_Same == \A a, b \in ES : IsLittle(a) = IsLittle(b) =>
                ReadInt(c.buf, c.off, c.w, IsLittle(a)) = ReadInt(c.buf, c.off, c.w, IsLittle(b))

Exp(x) == LET r == ReadInt(x.buf, x.off, x.w, IsLittle(x.es))
          IN IF r.ok THEN [out |-> "ok", val |-> r.val, off |-> r.off, little |-> IsLittle(x.es), big |-> ~IsLittle(x.es)]
             ELSE [out |-> "err", off |-> r.off, little |-> IsLittle(x.es), big |-> ~IsLittle(x.es)]
\* signed reads (parse_i32_at / parse_i64_at) return the same bytes: two's complement is a view, not a value change
Emit == PrintT(ToJson([op |-> "read_int", buf |-> c.buf, off |-> c.off, w |-> c.w, es |-> c.es,
                       signed |-> (IF "signed" \in DOMAIN c THEN c.signed ELSE FALSE), exp |-> Exp(c)]))
Inv == Prop_C04 /\ Emit
=============================================================================
