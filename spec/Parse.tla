------------------------------- MODULE Parse -------------------------------
(***************************************************************************)
(* The code side: rust-elf's readers transcribed statement by statement.   *)
(*   ReadInt        safe_from! (endian.rs:25-48)                           *)
(*   CodeLayout     the sequence of parse_uN_at calls of every ParseAt     *)
(*                  impl, in the code's read order, with the `as u64` /    *)
(*                  `as i64` widening the code applies                     *)
(*   ParseAt        decoding + the per-type post-processing (r_info split, *)
(*                  version checks, ch_reserved skipped)                   *)
(*   validate_entsize, ParsingTable len/get, ParsingIterator next          *)
(* Offsets handed in by callers are 8-byte words (usize); Val() turns them *)
(* into naturals or Huge.  Buffers are tuples of bytes.                    *)
(***************************************************************************)
EXTENDS Words

\* ---- safe_from! ------------------------------------------------------------
\* checked_add overflow and slice.get failure are both "an error"; the cursor is
\* only written after both succeeded.
ReadInt(buf, offW, w, little) ==
    LET off == Val(offW)
    IN IF off = Huge \/ off > Len(buf) \/ off + w > Len(buf)
       THEN [ok |-> FALSE, off |-> offW]
       ELSE LET raw == SubSeq(buf, off + 1, off + w)
            IN [ok |-> TRUE, val |-> IF little THEN raw ELSE Rev(raw), off |-> W8(off + w)]

\* ---- ParseAt impls: <<field, bytes read, "u"|"s"|"skip", native width>> ----
CodeLayout(ty, class) ==
  CASE ty = "shdr" /\ class = 32 ->          \* section.rs:78-89
         << <<"sh_name",4,"u",4>>, <<"sh_type",4,"u",4>>, <<"sh_flags",4,"u",8>>, <<"sh_addr",4,"u",8>>,
            <<"sh_offset",4,"u",8>>, <<"sh_size",4,"u",8>>, <<"sh_link",4,"u",4>>, <<"sh_info",4,"u",4>>,
            <<"sh_addralign",4,"u",8>>, <<"sh_entsize",4,"u",8>> >>
    [] ty = "shdr" /\ class = 64 ->          \* section.rs:90-101
         << <<"sh_name",4,"u",4>>, <<"sh_type",4,"u",4>>, <<"sh_flags",8,"u",8>>, <<"sh_addr",8,"u",8>>,
            <<"sh_offset",8,"u",8>>, <<"sh_size",8,"u",8>>, <<"sh_link",4,"u",4>>, <<"sh_info",4,"u",4>>,
            <<"sh_addralign",8,"u",8>>, <<"sh_entsize",8,"u",8>> >>
    [] ty = "phdr" /\ class = 32 ->          \* segment.rs:71-82
         << <<"p_type",4,"u",4>>, <<"p_offset",4,"u",8>>, <<"p_vaddr",4,"u",8>>, <<"p_paddr",4,"u",8>>,
            <<"p_filesz",4,"u",8>>, <<"p_memsz",4,"u",8>>, <<"p_flags",4,"u",4>>, <<"p_align",4,"u",8>> >>
    [] ty = "phdr" /\ class = 64 ->          \* segment.rs:85-92 (flags second)
         << <<"p_type",4,"u",4>>, <<"p_flags",4,"u",4>>, <<"p_offset",8,"u",8>>, <<"p_vaddr",8,"u",8>>,
            <<"p_paddr",8,"u",8>>, <<"p_filesz",8,"u",8>>, <<"p_memsz",8,"u",8>>, <<"p_align",8,"u",8>> >>
    [] ty = "sym" /\ class = 32 ->           \* symbol.rs:119-125
         << <<"st_name",4,"u",4>>, <<"st_value",4,"u",8>>, <<"st_size",4,"u",8>>, <<"st_info",1,"u",1>>,
            <<"st_other",1,"u",1>>, <<"st_shndx",2,"u",2>> >>
    [] ty = "sym" /\ class = 64 ->           \* symbol.rs:127-132
         << <<"st_name",4,"u",4>>, <<"st_info",1,"u",1>>, <<"st_other",1,"u",1>>, <<"st_shndx",2,"u",2>>,
            <<"st_value",8,"u",8>>, <<"st_size",8,"u",8>> >>
    [] ty = "rel" /\ class = 32 -> << <<"r_offset",4,"u",8>>, <<"r_info",4,"u",4>> >>
    [] ty = "rel" /\ class = 64 -> << <<"r_offset",8,"u",8>>, <<"r_info",8,"u",8>> >>
    [] ty = "rela" /\ class = 32 -> << <<"r_offset",4,"u",8>>, <<"r_info",4,"u",4>>, <<"r_addend",4,"s",8>> >>
    [] ty = "rela" /\ class = 64 -> << <<"r_offset",8,"u",8>>, <<"r_info",8,"u",8>>, <<"r_addend",8,"s",8>> >>
    [] ty = "dyn" /\ class = 32 -> << <<"d_tag",4,"s",8>>, <<"d_un",4,"u",8>> >>
    [] ty = "dyn" /\ class = 64 -> << <<"d_tag",8,"s",8>>, <<"d_un",8,"u",8>> >>
    [] ty = "chdr" /\ class = 32 -> << <<"ch_type",4,"u",4>>, <<"ch_size",4,"u",8>>, <<"ch_addralign",4,"u",8>> >>
    [] ty = "chdr" /\ class = 64 ->
         << <<"ch_type",4,"u",4>>, <<"ch_reserved",4,"skip",4>>, <<"ch_size",8,"u",8>>, <<"ch_addralign",8,"u",8>> >>
    [] ty = "abitag" -> << <<"os",4,"u",4>>, <<"major",4,"u",4>>, <<"minor",4,"u",4>>, <<"subminor",4,"u",4>> >>
    [] ty = "sysvhdr" -> << <<"nbucket",4,"u",4>>, <<"nchain",4,"u",4>> >>
    [] ty = "gnuhdr" -> << <<"nbucket",4,"u",4>>, <<"table_start_idx",4,"u",4>>, <<"nbloom",4,"u",4>>,
                           <<"nshift",4,"u",4>> >>
    [] ty = "u32" -> << <<"v",4,"u",4>> >>
    [] ty = "u64" -> << <<"v",8,"u",8>> >>
    [] ty = "versym" -> << <<"v",2,"u",2>> >>
    [] ty = "verdef" ->                      \* gnu_symver.rs:237-255 (version checked first)
         << <<"vd_version",2,"u",2>>, <<"vd_flags",2,"u",2>>, <<"vd_ndx",2,"u",2>>, <<"vd_cnt",2,"u",2>>,
            <<"vd_hash",4,"u",4>>, <<"vd_aux",4,"u",4>>, <<"vd_next",4,"u",4>> >>
    [] ty = "verdaux" -> << <<"vda_name",4,"u",4>>, <<"vda_next",4,"u",4>> >>
    [] ty = "verneed" ->
         << <<"vn_version",2,"u",2>>, <<"vn_cnt",2,"u",2>>, <<"vn_file",4,"u",4>>, <<"vn_aux",4,"u",4>>,
            <<"vn_next",4,"u",4>> >>
    [] ty = "vernaux" ->
         << <<"vna_hash",4,"u",4>>, <<"vna_flags",2,"u",2>>, <<"vna_other",2,"u",2>>, <<"vna_name",4,"u",4>>,
            <<"vna_next",4,"u",4>> >>
    [] ty = "nhdr" -> << <<"n_namesz",4,"u",8>>, <<"n_descsz",4,"u",8>>, <<"n_type",4,"u",8>> >>
    [] ty = "tail" /\ class = 32 ->          \* file.rs:172-196
         << <<"e_type",2,"u",2>>, <<"e_machine",2,"u",2>>, <<"version",4,"u",4>>, <<"e_entry",4,"u",8>>,
            <<"e_phoff",4,"u",8>>, <<"e_shoff",4,"u",8>>, <<"e_flags",4,"u",4>>, <<"e_ehsize",2,"u",2>>,
            <<"e_phentsize",2,"u",2>>, <<"e_phnum",2,"u",2>>, <<"e_shentsize",2,"u",2>>, <<"e_shnum",2,"u",2>>,
            <<"e_shstrndx",2,"u",2>> >>
    [] ty = "tail" /\ class = 64 ->
         << <<"e_type",2,"u",2>>, <<"e_machine",2,"u",2>>, <<"version",4,"u",4>>, <<"e_entry",8,"u",8>>,
            <<"e_phoff",8,"u",8>>, <<"e_shoff",8,"u",8>>, <<"e_flags",4,"u",4>>, <<"e_ehsize",2,"u",2>>,
            <<"e_phentsize",2,"u",2>>, <<"e_phnum",2,"u",2>>, <<"e_shentsize",2,"u",2>>, <<"e_shnum",2,"u",2>>,
            <<"e_shstrndx",2,"u",2>> >>

\* size_for(class) as the code states it (the literal constants in each impl)
SizeFor(ty, class) ==
  CASE ty = "shdr" -> IF class = 32 THEN 40 ELSE 64
    [] ty = "phdr" -> IF class = 32 THEN 32 ELSE 56
    [] ty = "sym"  -> IF class = 32 THEN 16 ELSE 24
    [] ty = "rel"  -> IF class = 32 THEN 8 ELSE 16
    [] ty = "rela" -> IF class = 32 THEN 12 ELSE 24
    [] ty = "dyn"  -> IF class = 32 THEN 8 ELSE 16
    [] ty = "chdr" -> IF class = 32 THEN 12 ELSE 24
    [] ty = "abitag" -> 16
    [] ty = "sysvhdr" -> 8
    [] ty = "gnuhdr" -> 16
    [] ty = "u32" -> 4
    [] ty = "u64" -> 8
    [] ty = "versym" -> 2
    [] ty = "verdef" -> 20
    [] ty = "verdaux" -> 8
    [] ty = "verneed" -> 16
    [] ty = "vernaux" -> 16
    [] ty = "nhdr" -> IF class = 32 THEN 12 ELSE 24
    [] ty = "tail" -> IF class = 32 THEN 36 ELSE 48

\* raw field-by-field decoding from a natural offset; on failure nothing else is promised
RECURSIVE DecFrom(_, _, _, _, _, _)
DecFrom(lay, i, buf, off, little, acc) ==
    IF i > Len(lay) THEN [ok |-> TRUE, f |-> acc, off |-> off]
    ELSE LET fs == lay[i]
             w  == fs[2]
         IN IF off + w > Len(buf) THEN [ok |-> FALSE]
            ELSE LET raw == SubSeq(buf, off + 1, off + w)
                     v   == IF little THEN raw ELSE Rev(raw)
                     x   == IF fs[3] = "s" THEN SExt(v, fs[4]) ELSE ZExt(v, fs[4])
                 IN \* version fields are checked as soon as they are read
                    IF fs[1] \in {"vd_version", "vn_version"} /\ v # <<1, 0>> THEN [ok |-> FALSE]
                    ELSE DecFrom(lay, i + 1, buf, off + w, little,
                                 IF fs[3] = "skip" \/ fs[1] \in {"vd_version", "vn_version"}
                                 THEN acc ELSE acc @@ (fs[1] :> x))

EmptyRec == [x \in {} |-> 0]

\* the per-type post-processing
Post(ty, class, f) ==
    IF ty \in {"rel", "rela"} THEN
        LET info == f["r_info"]
            rs == IF class = 32 THEN <<info[2], info[3], info[4], 0>>           \* r_info >> 8
                  ELSE <<info[5], info[6], info[7], info[8]>>                   \* (r_info >> 32) as u32
            rt == IF class = 32 THEN <<info[1], 0, 0, 0>>                       \* r_info & 0xFF
                  ELSE <<info[1], info[2], info[3], info[4]>>                   \* r_info & 0xFFFFFFFF
            base == ("r_offset" :> f["r_offset"]) @@ ("r_sym" :> rs) @@ ("r_type" :> rt)
        IN IF ty = "rela" THEN base @@ ("r_addend" :> f["r_addend"]) ELSE base
    ELSE f

\* P::parse_at(endian, class, &mut offset, data) with a natural offset
ParseNat(ty, class, little, buf, off) ==
    IF off > Len(buf) THEN [ok |-> FALSE]
    ELSE LET r == DecFrom(CodeLayout(ty, class), 1, buf, off, little, EmptyRec)
         IN IF r.ok THEN [ok |-> TRUE, f |-> Post(ty, class, r.f), off |-> r.off] ELSE r

\* ... and with a caller-supplied usize offset
ParseAt(ty, class, little, buf, offW) ==
    LET off == Val(offW)
    IN IF off = Huge THEN [ok |-> FALSE] ELSE ParseNat(ty, class, little, buf, off)

\* fields a client cannot read (private struct members); dropped from projections
Private == {"vd_aux", "vd_next", "vda_next", "vn_aux", "vn_next", "vna_next"}
Pub(f) == [n \in (DOMAIN f) \ Private |-> f[n]]

\* ---- validate_entsize (parse.rs:223-229) -------------------------------------
EntsizeOk(ty, class, entW) == Val(entW) = SizeFor(ty, class)

\* ---- ParsingTable (parse.rs:268-328) -----------------------------------------
TblLen(ty, class, buf) == Len(buf) \div SizeFor(ty, class)
TblGet(ty, class, little, buf, idxW) ==
    LET i == Val(idxW)
        es == SizeFor(ty, class)
    IN IF Len(buf) = 0 THEN [ok |-> FALSE]
       ELSE IF i = Huge THEN [ok |-> FALSE]            \* checked_mul overflow or start > len
       ELSE IF i > Len(buf) THEN [ok |-> FALSE]        \* (i * es >= i > len; avoids 32-bit overflow here)
       ELSE IF i * es > Len(buf) THEN [ok |-> FALSE]
       ELSE ParseNat(ty, class, little, buf, i * es)

\* ---- ParsingIterator (parse.rs:256-265): one next() from cursor `off` ---------
\* returns [some, f, off'];  on a failed parse the code's cursor may be partly advanced;
\* clients iterate until the first None, which is all the spec follows.
IterNext(ty, class, little, buf, off) ==
    IF Len(buf) = 0 THEN [some |-> FALSE]
    ELSE LET r == ParseNat(ty, class, little, buf, off)
         IN IF r.ok THEN [some |-> TRUE, f |-> r.f, off |-> r.off] ELSE [some |-> FALSE]

RECURSIVE IterAllFrom(_, _, _, _, _, _)
IterAllFrom(ty, class, little, buf, off, acc) ==
    LET r == IterNext(ty, class, little, buf, off)
    IN IF r.some THEN IterAllFrom(ty, class, little, buf, r.off, Append(acc, r.f)) ELSE acc
IterAll(ty, class, little, buf) == IterAllFrom(ty, class, little, buf, 0, <<>>)

=============================================================================
