INIT Init
NEXT Next
INVARIANT Inv
CONSTANTS
 MagicPool = {127, 69, 76, 70}
CHECK_DEADLOCK FALSE
