INIT Init
NEXT Next
INVARIANT Inv
CONSTANTS
 FullVersym = FALSE
CHECK_DEADLOCK FALSE
