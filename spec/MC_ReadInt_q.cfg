INIT Init
NEXT Next
INVARIANT Inv
CONSTANTS
 Pool = {0, 127, 128, 255}
 FullU16 = FALSE
CHECK_DEADLOCK FALSE
