INIT Init
NEXT Next
INVARIANT Inv
VIEW view
CONSTANTS
 FileLen = 3
 Ranges <- RangesQ
 MaxCalls = 3
 MaxFaults = 1
 MaxIntr = 1
 Variant = "lazy_seek"
CHECK_DEADLOCK FALSE
