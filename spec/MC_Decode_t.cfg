INIT Init
NEXT Next
INVARIANT Inv
CONSTANTS
 FullVersym = TRUE
CHECK_DEADLOCK FALSE
