----------------------------- MODULE MC_SymVer -----------------------------
(* C13: versioned objects encoded in TLA+ from the GNU symbol-versioning description
   (.gnu.version, .gnu.version_r, .gnu.version_d; records linked only by their next/aux offsets) in
   two layouts -- contiguous (record, its auxes, next record) and all records first, then the auxes --
   for small version models.  TLC checks that the operational get_requirement / get_definition resolve
   every symbol index to what the model says (ReqOk / DefOk: low 15 bits select the record, bit 15 is
   the hidden flag, None when unlisted, never a record beyond the table) and emits each object for
   replay through the stand-alone SymbolVersionTable::new. *)
EXTENDS VerBuild, Json
CONSTANTS Encs, Layouts, IdxBases      \* IdxBases: offsets added to every version index >= 2 (numeric windows)

VARIABLE c
Init == c = [stage |-> 0]
Next == \/ c.stage = 0 /\ \E k \in Encs, lay \in Layouts, nn \in 0..2, nd \in 0..2, ib \in IdxBases : c' = [stage |-> 1, enc |-> k, lay |-> lay, nn |-> nn, nd |-> nd, ib |-> ib]
        \/ c.stage = 1 /\ \E na1 \in (IF c.nn >= 1 THEN 0..2 ELSE {0}), na2 \in (IF c.nn >= 2 THEN 1..2 ELSE {0}),
                             dn1 \in (IF c.nd >= 1 THEN 1..2 ELSE {0}), dn2 \in (IF c.nd >= 2 THEN 1..2 ELSE {0}) :
                             c' = [c EXCEPT !.stage = 2] @@ [na1 |-> na1, na2 |-> na2, dn1 |-> dn1, dn2 |-> dn2]

Class == VEncOf(c.enc)[1]
L == VEncOf(c.enc)[2]
\* one symbol per pool entry so that every kind of index is queried
VsSeq == LET P == VsPool(c.nd, c.na1 + c.na2, c.ib)
             RECURSIVE S(_)
             S(X) == IF X = {} THEN <<>> ELSE LET x == CHOOSE y \in X : TRUE IN <<x>> \o S(X \ {x})
         IN S(P)
M == Model(c.nn, c.na1, c.na2, c.nd, c.dn1, c.dn2, VsSeq, c.ib)
NeedB == EncNeeds(M, c.lay, L)
DefB == EncDefs(M, c.lay, L, 0)
VersymB == VCat([i \in 1..Len(VsSeq) |-> VWd2(VsSeq[i], L)], Len(VsSeq))
NeedArg == IF c.nn = 0 THEN <<>> ELSE [buf |-> NeedB, count |-> W8(c.nn), str |-> StrTabB]
DefArg == IF c.nd = 0 THEN <<>> ELSE [buf |-> DefB, count |-> W8(c.nd), str |-> StrTabB]

Req(i) == GetRequirement(Class, L, VersymB, NeedArg, W8(i))
Def(i) == GetDefinition(Class, L, VersymB, DefArg, W8(i))
Prop_C13 ==
    \A i \in 0..(Len(VsSeq) + 1) :
       /\ (c.nn > 0 => ReqOk(M, i, Req(i), StrTabB)) /\ (c.nn = 0 => Req(i).out = "none")
       /\ (c.nd > 0 => DefOk(M, i, Def(i), StrTabB)) /\ (c.nd = 0 => Def(i).out = "none")

ReqJ(r) == IF r.out = "ok" THEN [out |-> "ok", file |-> r.file, name |-> r.name, hash |-> r.hash, flags |-> r.flags, hidden |-> r.hidden]
           ELSE [out |-> r.out]
DefJ(r) == IF r.out = "ok" THEN [out |-> "ok", hash |-> r.hash, flags |-> r.flags, hidden |-> r.hidden, names |-> r.names, n |-> Len(r.names)]
           ELSE [out |-> r.out]
Qn == Len(VsSeq) + 2
Emit == PrintT(ToJson(
          [op |-> "symver", class |-> Class, es |-> IF L THEN "LE" ELSE "AnyB", versym |-> VersymB,
           q |-> [k \in 1..(2 * Qn) |-> IF k % 2 = 1 THEN <<"req", W8((k - 1) \div 2)>> ELSE <<"def", W8((k - 1) \div 2)>>],
           exp |-> [k \in 1..(2 * Qn) |-> IF k % 2 = 1 THEN ReqJ(Req((k - 1) \div 2)) ELSE DefJ(Def((k - 1) \div 2))]]
          @@ (IF c.nn > 0 THEN [need |-> NeedArg] ELSE [x \in {} |-> 0])
          @@ (IF c.nd > 0 THEN [def |-> DefArg] ELSE [x \in {} |-> 0])))
Inv == c.stage = 2 => (Prop_C13 /\ Emit)
=============================================================================
