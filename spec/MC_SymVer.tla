----------------------------- MODULE MC_SymVer -----------------------------
(* C13: versioned objects encoded in TLA+ from the GNU symbol-versioning description
   (.gnu.version, .gnu.version_r, .gnu.version_d; records linked only by their next/aux offsets) in
   two layouts -- contiguous (record, its auxes, next record) and all records first, then the auxes --
   for small version models.  TLC checks that the operational get_requirement / get_definition resolve
   every symbol index to what the model says (ReqOk / DefOk: low 15 bits select the record, bit 15 is
   the hidden flag, None when unlisted, never a record beyond the table) and emits each object for
   replay through the stand-alone SymbolVersionTable::new. *)
EXTENDS SymVer, Abi, Json
CONSTANTS Encs, Layouts, IdxBases      \* IdxBases: offsets added to every version index >= 2 (numeric windows)

EncOf(k) == CASE k = 1 -> <<32, TRUE>> [] k = 2 -> <<32, FALSE>> [] k = 3 -> <<64, TRUE>> [] k = 4 -> <<64, FALSE>>
W32(n, l) == IF l THEN W4(n) ELSE Rev(W4(n))
W16(n, l) == IF l THEN W2(n) ELSE Rev(W2(n))
RECURSIVE CatAll(_, _)
CatAll(seqs, n) == IF n = 0 THEN <<>> ELSE CatAll(seqs, n - 1) \o seqs[n]

\* names are single distinct letters; the string table is "\0a\0b\0..." so name k sits at offset 2k-1
Nm(k) == <<96 + k>>
NmOff(k) == 2 * k - 1
StrTabB == <<0>> \o CatAll([k \in 1..14 |-> <<96 + k, 0>>], 14)

\* ---- models: nNeeds files with na1 / na2 auxes, nDefs definitions with nd1 / nd2 names ----------------
\* need aux j of file i gets index 2 + (number of earlier auxes) + nDefs ; def d gets index 1 + d  (1-based d)
Model(nn, na1, na2, nd, dn1, dn2, vs, ib) ==
    LET NA(i) == IF i = 1 THEN na1 ELSE na2
        DN(d) == IF d = 1 THEN dn1 ELSE dn2
        auxIdx(i, j) == ib + 1 + nd + (IF i = 1 THEN 0 ELSE na1) + j
        needs == [i \in 1..nn |-> [file |-> Nm(i),
                                   auxs |-> [j \in 1..NA(i) |-> [name |-> Nm(2 + 2 * i + j), hash |-> W4(1000 * i + j),
                                                                 flags |-> W2(j), other |-> W2(auxIdx(i, j))]]]]
        defs == [d \in 1..nd |-> [ndx |-> W2(ib + 1 + d), flags |-> W2(d - 1), hash |-> W4(77 * d),
                                  names |-> [k \in 1..DN(d) |-> Nm(8 + 2 * d + k)]]]
    IN [versym |-> vs, needs |-> needs, defs |-> defs]

\* positions of the records: layout 1 = contiguous, 2 = all records first then all auxes
NeedPos(m, lay) ==
    LET nn == Len(m.needs)
        NA(i) == Len(m.needs[i].auxs)
        recAt(i) == IF lay = 2 THEN 16 * (i - 1)
                    ELSE 16 * (i - 1) + 16 * (IF i > 1 THEN NA(1) ELSE 0)
        auxAt(i, j) == IF lay = 2 THEN 16 * nn + 16 * ((IF i > 1 THEN NA(1) ELSE 0) + j - 1)
                       ELSE recAt(i) + 16 * j
    IN [rec |-> [i \in 1..nn |-> recAt(i)], aux |-> [i \in 1..nn |-> [j \in 1..NA(i) |-> auxAt(i, j)]],
        total |-> 16 * nn + 16 * ((IF nn >= 1 THEN NA(1) ELSE 0) + (IF nn >= 2 THEN NA(2) ELSE 0))]

PutAt(b, off, w) == [i \in 1..Len(b) |-> IF i > off /\ i <= off + Len(w) THEN w[i - off] ELSE b[i]]
RECURSIVE PutAll(_, _, _)
PutAll(b, items, k) == IF k > Len(items) THEN b ELSE PutAll(PutAt(b, items[k][1], items[k][2]), items, k + 1)

NmIdxOf(n) == n[1] - 96
Wd4(w, l) == IF l THEN w ELSE Rev(w)
Wd2(w, l) == IF l THEN w ELSE Rev(w)
EncNeeds(m, lay, l) ==
    LET p == NeedPos(m, lay)
        nn == Len(m.needs)
        recs == [i \in 1..nn |->
                   <<p.rec[i], W16(1, l) \o W16(Len(m.needs[i].auxs), l) \o W32(NmOff(NmIdxOf(m.needs[i].file)), l)
                               \o W32(IF Len(m.needs[i].auxs) = 0 THEN 0 ELSE p.aux[i][1] - p.rec[i], l)
                               \o W32(IF i < nn THEN p.rec[i + 1] - p.rec[i] ELSE 0, l)>>]
        auxes == CatAll([i \in 1..nn |->
                   [j \in 1..Len(m.needs[i].auxs) |->
                      LET a == m.needs[i].auxs[j]
                      IN <<p.aux[i][j], Wd4(a.hash, l) \o Wd2(a.flags, l) \o Wd2(a.other, l) \o W32(NmOff(NmIdxOf(a.name)), l)
                                        \o W32(IF j < Len(m.needs[i].auxs) THEN p.aux[i][j + 1] - p.aux[i][j] ELSE 0, l)>>]], nn)
    IN PutAll([i \in 1..p.total |-> 238], recs \o auxes, 1)

DefPos(m, lay) ==
    LET nd == Len(m.defs)
        DN(d) == Len(m.defs[d].names)
        recAt(d) == IF lay = 2 THEN 20 * (d - 1) ELSE 20 * (d - 1) + 8 * (IF d > 1 THEN DN(1) ELSE 0)
        auxAt(d, k) == IF lay = 2 THEN 20 * nd + 8 * ((IF d > 1 THEN DN(1) ELSE 0) + k - 1) ELSE recAt(d) + 20 + 8 * (k - 1)
    IN [rec |-> [d \in 1..nd |-> recAt(d)], aux |-> [d \in 1..nd |-> [k \in 1..DN(d) |-> auxAt(d, k)]],
        total |-> 20 * nd + 8 * ((IF nd >= 1 THEN DN(1) ELSE 0) + (IF nd >= 2 THEN DN(2) ELSE 0))]
EncDefs(m, lay, l) ==
    LET p == DefPos(m, lay)
        nd == Len(m.defs)
        recs == [d \in 1..nd |->
                   LET x == m.defs[d]
                   IN <<p.rec[d], W16(1, l) \o Wd2(x.flags, l) \o Wd2(x.ndx, l) \o W16(Len(x.names), l) \o Wd4(x.hash, l)
                                  \o W32(IF Len(x.names) = 0 THEN 0 ELSE p.aux[d][1] - p.rec[d], l)
                                  \o W32(IF d < nd THEN p.rec[d + 1] - p.rec[d] ELSE 0, l)>>]
        auxes == CatAll([d \in 1..nd |->
                   [k \in 1..Len(m.defs[d].names) |->
                      <<p.aux[d][k], W32(NmOff(NmIdxOf(m.defs[d].names[k])), l)
                                     \o W32(IF k < Len(m.defs[d].names) THEN p.aux[d][k + 1] - p.aux[d][k] ELSE 0, l)>>]], nd)
    IN PutAll([i \in 1..p.total |-> 238], recs \o auxes, 1)

VARIABLE c
Init == c = [stage |-> 0]
\* versym entries: local, global, each listed index, an unlisted one; plain and hidden
VsPool(nd, ntot, ib) == LET base == {0, 1} \cup ((ib + 2)..(ib + 1 + nd + ntot)) \cup {ib + 1 + nd + ntot + 3}
                    IN { W2(v) : v \in base } \cup { <<v % 256, 128 + (v \div 256)>> : v \in base }
Next == \/ c.stage = 0 /\ \E k \in Encs, lay \in Layouts, nn \in 0..2, nd \in 0..2, ib \in IdxBases : c' = [stage |-> 1, enc |-> k, lay |-> lay, nn |-> nn, nd |-> nd, ib |-> ib]
        \/ c.stage = 1 /\ \E na1 \in (IF c.nn >= 1 THEN 0..2 ELSE {0}), na2 \in (IF c.nn >= 2 THEN 1..2 ELSE {0}),
                             dn1 \in (IF c.nd >= 1 THEN 1..2 ELSE {0}), dn2 \in (IF c.nd >= 2 THEN 1..2 ELSE {0}) :
                             c' = [c EXCEPT !.stage = 2] @@ [na1 |-> na1, na2 |-> na2, dn1 |-> dn1, dn2 |-> dn2]

Class == EncOf(c.enc)[1]
L == EncOf(c.enc)[2]
\* one symbol per pool entry so that every kind of index is queried
VsSeq == LET P == VsPool(c.nd, c.na1 + c.na2, c.ib)
             RECURSIVE S(_)
             S(X) == IF X = {} THEN <<>> ELSE LET x == CHOOSE y \in X : TRUE IN <<x>> \o S(X \ {x})
         IN S(P)
M == Model(c.nn, c.na1, c.na2, c.nd, c.dn1, c.dn2, VsSeq, c.ib)
NeedB == EncNeeds(M, c.lay, L)
DefB == EncDefs(M, c.lay, L)
VersymB == CatAll([i \in 1..Len(VsSeq) |-> Wd2(VsSeq[i], L)], Len(VsSeq))
NeedArg == IF c.nn = 0 THEN <<>> ELSE [buf |-> NeedB, count |-> W8(c.nn), str |-> StrTabB]
DefArg == IF c.nd = 0 THEN <<>> ELSE [buf |-> DefB, count |-> W8(c.nd), str |-> StrTabB]

Req(i) == GetRequirement(Class, L, VersymB, NeedArg, W8(i))
Def(i) == GetDefinition(Class, L, VersymB, DefArg, W8(i))
Prop_C13 ==
    \A i \in 0..(Len(VsSeq) + 1) :
       /\ (c.nn > 0 => ReqOk(M, i, Req(i), StrTabB)) /\ (c.nn = 0 => Req(i).out = "none")
       /\ (c.nd > 0 => DefOk(M, i, Def(i), StrTabB)) /\ (c.nd = 0 => Def(i).out = "none")

ReqJ(r) == IF r.out = "ok" THEN [out |-> "ok", file |-> r.file, name |-> r.name, hash |-> r.hash, flags |-> r.flags, hidden |-> r.hidden]
           ELSE [out |-> r.out]
DefJ(r) == IF r.out = "ok" THEN [out |-> "ok", hash |-> r.hash, flags |-> r.flags, hidden |-> r.hidden, names |-> r.names, n |-> Len(r.names)]
           ELSE [out |-> r.out]
Qn == Len(VsSeq) + 2
Emit == PrintT(ToJson(
          [op |-> "symver", class |-> Class, es |-> IF L THEN "LE" ELSE "AnyB", versym |-> VersymB,
           q |-> [k \in 1..(2 * Qn) |-> IF k % 2 = 1 THEN <<"req", W8((k - 1) \div 2)>> ELSE <<"def", W8((k - 1) \div 2)>>],
           exp |-> [k \in 1..(2 * Qn) |-> IF k % 2 = 1 THEN ReqJ(Req((k - 1) \div 2)) ELSE DefJ(Def((k - 1) \div 2))]]
          @@ (IF c.nn > 0 THEN [need |-> NeedArg] ELSE [x \in {} |-> 0])
          @@ (IF c.nd > 0 THEN [def |-> DefArg] ELSE [x \in {} |-> 0])))
Inv == c.stage = 2 => (Prop_C13 /\ Emit)
=============================================================================
