----------------------------- MODULE MC_Corrupt -----------------------------
(* C01 (with C03/C05/C06/C20 riding along): the corruption corpus derived from the specification's own
   layout tables.  For the template object, EVERY field of the file header, of every section header
   and of every program header is overwritten, one at a time, with each boundary value
   {0..8, 0x7f.., 0x80.., all-ones, len-1, len, len+1} (cut to the field's width); the whole query
   script is run on each corrupted file.  TLC computes the specification's answer to every query (a
   total function: an evaluation error would be a defect of the model) and emits the session; the
   crate must give the same answers and must not panic, abort, allocate or hang. *)
EXTENDS Template
CONSTANTS Encodings

Set(b, off, w) == [i \in 1..Len(b) |-> IF i > off /\ i <= off + Len(w) THEN w[i - off] ELSE b[i]]

\* <<absolute offset, width>> of every header field of the template in encoding k
FieldsOf(k) ==
    LET class == EncOf(k)[1]
        tl == CLayout("tail", class) sl == CLayout("shdr", class) pl == CLayout("phdr", class)
        eb == EbF[k]
    IN { <<16 + COff(tl, i), tl[i][2]>> : i \in 1..Len(tl) } \cup {<<4, 1>>, <<5, 1>>, <<6, 1>>}
       \cup { <<eb.sh.off + s * CSize("shdr", class) + COff(sl, i), sl[i][2]>> : s \in 0..(eb.sh.n - 1), i \in 1..Len(sl) }
       \cup { <<eb.ph.off + p * CSize("phdr", class) + COff(pl, i), pl[i][2]>> : p \in 0..(eb.ph.n - 1), i \in 1..Len(pl) }

Vals(w, len, little) ==
    LET raw == { Zeros(w), [i \in 1..w |-> IF i = 1 THEN 1 ELSE 0], [i \in 1..w |-> IF i = 1 THEN 2 ELSE 0],
                 [i \in 1..w |-> IF i = w THEN 127 ELSE 255], [i \in 1..w |-> IF i = w THEN 128 ELSE 0], Ones(w),
                 SubSeq(W8(len - 1), 1, w), SubSeq(W8(len), 1, w), SubSeq(W8(len + 1), 1, w) }
               \* every small value: link / info / index fields then point at each section of the template in turn
               \cup { [i \in 1..w |-> IF i = 1 THEN k ELSE 0] : k \in 3..8 }
    IN IF little THEN raw ELSE { Rev(v) : v \in raw }

VARIABLE c
Init == c = [stage |-> 0]
Next == \/ c.stage = 0 /\ \E k \in Encodings : \E fd \in FieldsOf(k) : c' = [stage |-> 1, enc |-> k, off |-> fd[1], w |-> fd[2]]
        \/ c.stage = 1 /\ \E v \in Vals(c.w, Len(FullF[c.enc]), EncOf(c.enc)[2]) : c' = [c EXCEPT !.stage = 2] @@ [v |-> v]

FileB == Set(FullF[c.enc], c.off, c.v)
\* totality of the model: every answer is one of the three outcome classes
Total == LET f == F(FileB) o == Open(f, "Any")
         IN o.ok => \A i \in 1..Len(QsF[c.enc]) : QOut(f, o, QsF[c.enc][i], FALSE) \in {"ok", "none", "err"}
Emit == PrintT(ToJson(Session(FileB, "Any", QsF[c.enc], [family |-> "mc-corrupt", off |-> c.off, w |-> c.w])))
Inv == c.stage = 2 => (Total /\ Emit)
=============================================================================
