INIT Init
NEXT Next
INVARIANT InvEmit
VIEW view
CONSTANTS
 FileLen = 4
 Ranges <- RangesT
 MaxCalls = 3
 MaxFaults = 2
 MaxIntr = 1
 Variant = "code"
CHECK_DEADLOCK FALSE
