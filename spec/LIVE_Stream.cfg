SPECIFICATION Spec
PROPERTY Terminates
VIEW view
CONSTANTS
 FileLen = 3
 Ranges <- RangesQ
 MaxCalls = 2
 MaxFaults = 1
 MaxIntr = 1
 Variant = "code"
CHECK_DEADLOCK FALSE
