INIT Init
NEXT Next
INVARIANT Inv
VIEW view
CONSTANTS
 FileLen = 3
 Ranges <- RangesQ
 MaxCalls = 3
 MaxFaults = 1
 MaxIntr = 1
 Variant = "evict_on_pressure"
CHECK_DEADLOCK FALSE
