INIT Init
NEXT Next
INVARIANT Inv
CONSTANTS
 Encodings = {2, 3, 6, 11, 14}
CHECK_DEADLOCK FALSE
