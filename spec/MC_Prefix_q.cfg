INIT Init
NEXT Next
INVARIANT Inv
CONSTANTS
 Encodings = {2, 3, 6, 11}
CHECK_DEADLOCK FALSE
