------------------------------- MODULE StrTab -------------------------------
(* String tables (string_table.rs).  Operational model of get_raw / get, the declarative
   statement of C15, and a UTF-8 validity predicate (RFC 3629 / Unicode table 3-7). *)
EXTENDS Words
LOCAL INSTANCE SequencesExt

\* ---- operational: StringTable::get_raw (string_table.rs:15-30) ---------------
\* position of the first NUL at or after position p, 0 if there is none
\* (SelectInSubSeq is evaluated iteratively, so a 70 000-byte string costs 70 000 steps, not a deep recursion)
IsNul(b) == b = 0
FirstNul(buf, p) == IF p > Len(buf) THEN 0 ELSE SelectInSubSeq(buf, p, Len(buf), IsNul)
RECURSIVE FirstNulRec(_, _)                  \* the same by recursion (reference; compared in MC_StrTab)
FirstNulRec(buf, p) == IF p > Len(buf) THEN 0 ELSE IF buf[p] = 0 THEN p ELSE FirstNulRec(buf, p + 1)

GetRaw(buf, offW) ==
    LET off == Val(offW)
    IN IF Len(buf) = 0 THEN [ok |-> FALSE, kind |-> "BadOffset"]
       ELSE IF off = Huge \/ off > Len(buf) THEN [ok |-> FALSE, kind |-> "BadOffset"]    \* data.get(off..)
       ELSE LET p == FirstNul(buf, off + 1)
            IN IF p = 0 THEN [ok |-> FALSE, kind |-> "StringTableMissingNul"]
               ELSE [ok |-> TRUE, start |-> off, len |-> p - 1 - off]

\* ---- UTF-8 -------------------------------------------------------------------
Cont(b) == b >= 128 /\ b <= 191
\* validity of buf[lo..hi] (positions, 1-based, inclusive), stated on the table itself so that no
\* copy of a long string is made at every step
RECURSIVE Utf8In(_, _, _)
Utf8In(s, i, hi) ==
    IF i > hi THEN TRUE
    ELSE LET b == s[i]
             N(k) == IF i + k <= hi THEN s[i + k] ELSE 0
         IN IF b <= 127 THEN Utf8In(s, i + 1, hi)
            ELSE IF b >= 194 /\ b <= 223 THEN Cont(N(1)) /\ Utf8In(s, i + 2, hi)
            ELSE IF b = 224 THEN N(1) >= 160 /\ N(1) <= 191 /\ Cont(N(2)) /\ Utf8In(s, i + 3, hi)
            ELSE IF (b >= 225 /\ b <= 236) \/ b = 238 \/ b = 239
                 THEN Cont(N(1)) /\ Cont(N(2)) /\ Utf8In(s, i + 3, hi)
            ELSE IF b = 237 THEN N(1) >= 128 /\ N(1) <= 159 /\ Cont(N(2)) /\ Utf8In(s, i + 3, hi)
            ELSE IF b = 240 THEN N(1) >= 144 /\ N(1) <= 191 /\ Cont(N(2)) /\ Cont(N(3)) /\ Utf8In(s, i + 4, hi)
            ELSE IF b >= 241 /\ b <= 243 THEN Cont(N(1)) /\ Cont(N(2)) /\ Cont(N(3)) /\ Utf8In(s, i + 4, hi)
            ELSE IF b = 244 THEN N(1) >= 128 /\ N(1) <= 143 /\ Cont(N(2)) /\ Cont(N(3)) /\ Utf8In(s, i + 4, hi)
            ELSE FALSE
IsUtf8Rec(s) == Utf8In(s, 1, Len(s))

\* the same as a byte-at-a-time automaton (state: continuation bytes still owed and the range allowed
\* for the next one; <<-1, 0, 0>> is the reject state), folded over the string iteratively
Utf8Step(st, b) ==
    IF st[1] = -1 THEN st
    ELSE IF st[1] = 0
         THEN IF b <= 127 THEN <<0, 0, 0>>
              ELSE IF b >= 194 /\ b <= 223 THEN <<1, 128, 191>>
              ELSE IF b = 224 THEN <<2, 160, 191>>
              ELSE IF (b >= 225 /\ b <= 236) \/ b = 238 \/ b = 239 THEN <<2, 128, 191>>
              ELSE IF b = 237 THEN <<2, 128, 159>>
              ELSE IF b = 240 THEN <<3, 144, 191>>
              ELSE IF b >= 241 /\ b <= 243 THEN <<3, 128, 191>>
              ELSE IF b = 244 THEN <<3, 128, 143>>
              ELSE <<-1, 0, 0>>
         ELSE IF b >= st[2] /\ b <= st[3] THEN (IF st[1] = 1 THEN <<0, 0, 0>> ELSE <<st[1] - 1, 128, 191>>)
              ELSE <<-1, 0, 0>>
IsUtf8(s) == FoldLeft(Utf8Step, <<0, 0, 0>>, s)[1] = 0

\* StringTable::get (string_table.rs:32-35)
Get(buf, offW) ==
    LET r == GetRaw(buf, offW)
    IN IF ~r.ok THEN r
       ELSE IF IsUtf8(SubSeq(buf, r.start + 1, r.start + r.len)) THEN r
       ELSE [ok |-> FALSE, kind |-> "Utf8Error"]

\* ---- declarative C15 -----------------------------------------------------------
\* get_raw(off) = the longest NUL-free run starting at off, provided off is inside the table and
\* a NUL follows the run inside the table; otherwise an error.
DeclRaw(buf, offW, r) ==
    LET off == Val(offW)
        inside == off # Huge /\ off < Len(buf)
    IN IF r.ok
       THEN /\ inside /\ r.start = off                       \* (stated per result so that it is linear in
            /\ r.len \in 0..(Len(buf) - off - 1)             \*  the table size: the run is unique, it ends
            /\ buf[off + r.len + 1] = 0                       \*  at the first NUL)
            /\ \A j \in 1..r.len : buf[off + j] # 0
       ELSE ~inside \/ \A p \in (off + 1)..Len(buf) : buf[p] # 0

\* ---- very long tables, described instead of listed ------------------------------------------
\* b = [len, fill, chunks]: len bytes all equal to fill (non-zero) except where a chunk [off (0-based), bytes]
\* overrides them.  The NULs are then inside the chunks, so a table of 2^20, 2^24 or 2^28 bytes costs nothing to judge.
NulsOf(b) == UNION { { b.chunks[k].off + j - 1 : j \in { i \in 1..Len(b.chunks[k].bytes) : b.chunks[k].bytes[i] = 0 /\ b.chunks[k].off + i - 1 < b.len } }
                     : k \in 1..Len(b.chunks) }
GetRawS(b, offW) ==
    LET off == Val(offW)
    IN IF b.len = 0 \/ off = Huge \/ off > b.len THEN [ok |-> FALSE, kind |-> "BadOffset"]
       ELSE LET cand == { p \in NulsOf(b) : p >= off }
            IN IF cand = {} THEN [ok |-> FALSE, kind |-> "StringTableMissingNul"]
               ELSE LET p == CHOOSE x \in cand : \A y \in cand : x <= y
                    IN [ok |-> TRUE, start |-> off, len |-> p - off]
\* every byte is ASCII: then get() = get_raw() (otherwise get() is not judged on such a table)
AsciiS(b) == b.fill <= 127 /\ \A k \in 1..Len(b.chunks) : \A i \in 1..Len(b.chunks[k].bytes) : b.chunks[k].bytes[i] <= 127
\* the description is usable: a non-zero fill and chunks that do not overlap
WellDescribed(b) == b.fill # 0 /\ \A k \in 1..Len(b.chunks) : \A m \in 1..Len(b.chunks) :
                        k < m => b.chunks[k].off + Len(b.chunks[k].bytes) <= b.chunks[m].off

\* projection used in traces and cases: empty slices carry no position
RangeJ(start, len) == IF len = 0 THEN <<0, 0>> ELSE <<start, len>>
=============================================================================
