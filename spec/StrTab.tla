------------------------------- MODULE StrTab -------------------------------
(* String tables (string_table.rs).  Operational model of get_raw / get, the declarative
   statement of C15, and a UTF-8 validity predicate (RFC 3629 / Unicode table 3-7). *)
EXTENDS Words

\* ---- operational: StringTable::get_raw (string_table.rs:15-30) ---------------
RECURSIVE FirstNul(_, _)
FirstNul(buf, p) == IF p > Len(buf) THEN 0 ELSE IF buf[p] = 0 THEN p ELSE FirstNul(buf, p + 1)

GetRaw(buf, offW) ==
    LET off == Val(offW)
    IN IF Len(buf) = 0 THEN [ok |-> FALSE, kind |-> "BadOffset"]
       ELSE IF off = Huge \/ off > Len(buf) THEN [ok |-> FALSE, kind |-> "BadOffset"]    \* data.get(off..)
       ELSE LET p == FirstNul(buf, off + 1)
            IN IF p = 0 THEN [ok |-> FALSE, kind |-> "StringTableMissingNul"]
               ELSE [ok |-> TRUE, start |-> off, len |-> p - 1 - off]

\* ---- UTF-8 -------------------------------------------------------------------
Cont(b) == b >= 128 /\ b <= 191
RECURSIVE Utf8From(_, _)
Utf8From(s, i) ==
    IF i > Len(s) THEN TRUE
    ELSE LET b == s[i]
             N(k) == IF i + k <= Len(s) THEN s[i + k] ELSE 0
         IN IF b <= 127 THEN Utf8From(s, i + 1)
            ELSE IF b >= 194 /\ b <= 223 THEN Cont(N(1)) /\ Utf8From(s, i + 2)
            ELSE IF b = 224 THEN N(1) >= 160 /\ N(1) <= 191 /\ Cont(N(2)) /\ Utf8From(s, i + 3)
            ELSE IF (b >= 225 /\ b <= 236) \/ b = 238 \/ b = 239
                 THEN Cont(N(1)) /\ Cont(N(2)) /\ Utf8From(s, i + 3)
            ELSE IF b = 237 THEN N(1) >= 128 /\ N(1) <= 159 /\ Cont(N(2)) /\ Utf8From(s, i + 3)
            ELSE IF b = 240 THEN N(1) >= 144 /\ N(1) <= 191 /\ Cont(N(2)) /\ Cont(N(3)) /\ Utf8From(s, i + 4)
            ELSE IF b >= 241 /\ b <= 243 THEN Cont(N(1)) /\ Cont(N(2)) /\ Cont(N(3)) /\ Utf8From(s, i + 4)
            ELSE IF b = 244 THEN N(1) >= 128 /\ N(1) <= 143 /\ Cont(N(2)) /\ Cont(N(3)) /\ Utf8From(s, i + 4)
            ELSE FALSE
IsUtf8(s) == Utf8From(s, 1)

\* StringTable::get (string_table.rs:32-35)
Get(buf, offW) ==
    LET r == GetRaw(buf, offW)
    IN IF ~r.ok THEN r
       ELSE IF IsUtf8(SubSeq(buf, r.start + 1, r.start + r.len)) THEN r
       ELSE [ok |-> FALSE, kind |-> "Utf8Error"]

\* ---- declarative C15 -----------------------------------------------------------
\* get_raw(off) = the longest NUL-free run starting at off, provided off is inside the table and
\* a NUL follows the run inside the table; otherwise an error.
DeclRaw(buf, offW, r) ==
    LET off == Val(offW)
        inside == off # Huge /\ off < Len(buf)
        runs == IF inside THEN { n \in 0..(Len(buf) - off - 1) :
                                   /\ \A j \in 1..n : buf[off + j] # 0
                                   /\ buf[off + n + 1] = 0 }
                ELSE {}
    IN IF runs = {} THEN ~r.ok
       ELSE r.ok /\ r.start = off /\ {r.len} = runs          \* the run is unique: it ends at the first NUL

\* projection used in traces and cases: empty slices carry no position
RangeJ(start, len) == IF len = 0 THEN <<0, 0>> ELSE <<start, len>>
=============================================================================
