-------------------------------- MODULE Hash --------------------------------
(* .hash / .gnu.hash (hash.rs): hash functions (operational, wrapping u32 arithmetic on 16-bit
   limbs, and the reference text forms), table construction (new) and lookup (find), plus the
   declarative statements of C11 / C12 (soundness, completeness on well-formed tables). *)
EXTENDS Parse, StrTab

\* ---------------------------------------------------------------- hash functions
\* operational sysv_hash (hash.rs:55-62): u32 state as limbs <<lo, hi>>
RECURSIVE SysvStep(_, _, _, _)
SysvStep(name, i, lo, hi) ==
    IF i > Len(name) THEN <<lo, hi>>
    ELSE LET lo1 == lo * 16 + name[i]                        \* wrapping_mul(16).wrapping_add(byte)
             hi1 == (hi * 16 + (lo1 \div 65536)) % 65536
             lo2 == lo1 % 65536
             g   == ((hi1 \div 256) \div 16) * 16            \* (hash >> 24) & 0xf0
             b0  == lo2 % 256
             b0x == (((b0 \div 16) ^^ (g \div 16)) * 16) + (b0 % 16)     \* hash ^= g
         IN SysvStep(name, i + 1, (lo2 - b0) + b0x, hi1)
SysvHash(name) == LET r == SysvStep(name, 1, 0, 0) IN FromLimbs(r[1], r[2] % 4096)    \* & 0x0fffffff

\* reference: gABI elf_hash (32-bit unsigned long):
\*   h = (h << 4) + c;  if (g = h & 0xf0000000) h ^= g >> 24;  h &= ~g;
RECURSIVE ElfHashStep(_, _, _, _)
ElfHashStep(name, i, lo, hi) ==          \* invariant: hi < 2^12 (top nibble clear)
    IF i > Len(name) THEN <<lo, hi>>
    ELSE LET lo1 == lo * 16 + name[i]
             hi1 == (hi * 16 + (lo1 \div 65536)) % 65536
             lo2 == lo1 % 65536
             g   == hi1 \div 4096                              \* top nibble (h & 0xf0000000) >> 28
             b0  == lo2 % 256
             lo3 == IF g # 0 THEN (lo2 - b0) + ((((b0 \div 16) ^^ g) * 16) + (b0 % 16)) ELSE lo2   \* h ^= g >> 24
         IN ElfHashStep(name, i + 1, lo3, hi1 % 4096)          \* h &= ~g
ElfHashRef(name) == LET r == ElfHashStep(name, 1, 0, 0) IN FromLimbs(r[1], r[2])

\* operational gnu_hash (hash.rs:133-139): wrapping_mul(33).wrapping_add(byte), seed 5381
RECURSIVE GnuStep(_, _, _, _)
GnuStep(name, i, lo, hi) ==
    IF i > Len(name) THEN <<lo, hi>>
    ELSE LET lo1 == lo * 33 + name[i]
         IN GnuStep(name, i + 1, lo1 % 65536, (hi * 33 + (lo1 \div 65536)) % 65536)
GnuHash(name) == LET r == GnuStep(name, 1, 5381, 0) IN FromLimbs(r[1], r[2])

\* reference: djb2  h = ((h << 5) + h) + c  on 32-bit words, byte-tuple arithmetic
Shl5(w) == LET v(k) == IF k < 5 THEN 0 ELSE Bit(w, k - 5)
           IN [i \in 1..4 |-> v(8*(i-1)) + 2*v(8*(i-1)+1) + 4*v(8*(i-1)+2) + 8*v(8*(i-1)+3) + 16*v(8*(i-1)+4)
                              + 32*v(8*(i-1)+5) + 64*v(8*(i-1)+6) + 128*v(8*(i-1)+7)]
RECURSIVE Djb2Step(_, _, _)
Djb2Step(name, i, h) ==
    IF i > Len(name) THEN h
    ELSE Djb2Step(name, i + 1, AddW(AddW(Shl5(h), h)[1], <<name[i], 0, 0, 0>>)[1])
Djb2Ref(name) == Djb2Step(name, 1, W4(5381))

\* ---------------------------------------------------------------- table helpers
U32At(buf, idx, little) == LET raw == SubSeq(buf, 4 * idx + 1, 4 * idx + 4) IN IF little THEN raw ELSE Rev(raw)
U64At(buf, idx, little) == LET raw == SubSeq(buf, 8 * idx + 1, 8 * idx + 8) IN IF little THEN raw ELSE Rev(raw)

\* symtab.get(index) then strtab.get_raw(st_name) == name ?   index is a word (u32 -> usize)
\* result: [ok |-> FALSE] (an error), or [ok |-> TRUE, eq |-> BOOLEAN, sym |-> fields]
SymNameIs(class, little, symbuf, strbuf, idxW, name) ==
    LET s == TblGet("sym", class, little, symbuf, ZExt(idxW, 8))
    IN IF ~s.ok THEN [ok |-> FALSE]
       ELSE LET r == GetRaw(strbuf, ZExt(s.f["st_name"], 8))
            IN IF ~r.ok THEN [ok |-> FALSE]
               ELSE [ok |-> TRUE, sym |-> s.f, eq |-> SubSeq(strbuf, r.start + 1, r.start + r.len) = name]

\* ---------------------------------------------------------------- SysV (hash.rs:74-129)
SysvNew(little, buf) ==
    LET h == ParseNat("sysvhdr", 32, little, buf, 0)
    IN IF ~h.ok THEN [ok |-> FALSE]
       ELSE LET nb == Val(h.f["nbucket"]) nc == Val(h.f["nchain"])
            IN IF nb = Huge \/ nb > Len(buf) \/ 8 + 4 * nb > Len(buf) THEN [ok |-> FALSE]
               ELSE IF nc = Huge \/ nc > Len(buf) \/ 8 + 4 * nb + 4 * nc > Len(buf) THEN [ok |-> FALSE]
               ELSE [ok |-> TRUE, nbucket |-> nb, nchain |-> nc,
                     buckets |-> SubSeq(buf, 9, 8 + 4 * nb), chains |-> SubSeq(buf, 9 + 4 * nb, 8 + 4 * nb + 4 * nc)]

\* the chain walk, i = iterations done; index is a u32 word
RECURSIVE SysvWalk(_, _, _, _, _, _, _, _)
SysvWalk(t, class, little, symbuf, strbuf, name, index, i) ==
    IF IsZeroW(index) \/ i >= t.nchain THEN [out |-> "none"]
    ELSE LET c == SymNameIs(class, little, symbuf, strbuf, index, name)
         IN IF ~c.ok THEN [out |-> "err"]
            ELSE IF c.eq THEN [out |-> "ok", idx |-> ZExt(index, 8), sym |-> c.sym]
            ELSE IF Val(index) = Huge \/ Val(index) >= t.nchain THEN [out |-> "err"]     \* chains.get(index)?
            ELSE SysvWalk(t, class, little, symbuf, strbuf, name, U32At(t.chains, Val(index), little), i + 1)

SysvFind(class, little, hashbuf, symbuf, strbuf, name) ==
    LET t == SysvNew(little, hashbuf)
    IN IF ~t.ok THEN [out |-> "err", at |-> "new"]
       ELSE IF t.nbucket = 0 THEN [out |-> "none"]
       ELSE LET start == ModW(SysvHash(name), t.nbucket)
            IN SysvWalk(t, class, little, symbuf, strbuf, name, U32At(t.buckets, start, little), 0)

\* ---------------------------------------------------------------- GNU (hash.rs:206-327)
GnuNew(class, little, buf) ==
    LET h == ParseNat("gnuhdr", 32, little, buf, 0)
        ws == IF class = 32 THEN 4 ELSE 8
    IN IF ~h.ok THEN [ok |-> FALSE]
       ELSE LET nbl == Val(h.f["nbloom"]) nb == Val(h.f["nbucket"])
            IN IF nbl = Huge \/ nbl > Len(buf) \/ 16 + ws * nbl > Len(buf) THEN [ok |-> FALSE]
               ELSE IF nb = Huge \/ nb > Len(buf) \/ 16 + ws * nbl + 4 * nb > Len(buf) THEN [ok |-> FALSE]
               ELSE LET o == 16 + ws * nbl + 4 * nb
                    IN [ok |-> TRUE, hdr |-> h.f, nbloom |-> nbl, nbucket |-> nb,
                        bloom |-> SubSeq(buf, 17, 16 + ws * nbl),
                        buckets |-> SubSeq(buf, 17 + ws * nbl, o),
                        chains |-> SubSeq(buf, o + 1, Len(buf)), nchain |-> (Len(buf) - o) \div 4]

RECURSIVE GnuWalk(_, _, _, _, _, _, _, _)
GnuWalk(t, class, little, symbuf, strbuf, name, hash, ci) ==      \* ci: natural chain index
    IF ci >= t.nchain THEN [out |-> "none"]
    ELSE LET ch == U32At(t.chains, ci, little)
             same == (hash[1] \div 2 = ch[1] \div 2) /\ hash[2] = ch[2] /\ hash[3] = ch[3] /\ hash[4] = ch[4]
             symIdx == AddW(W8(ci), ZExt(t.hdr["table_start_idx"], 8))[1]
             c == IF same THEN SymNameIs(class, little, symbuf, strbuf, symIdx, name) ELSE [ok |-> TRUE, eq |-> FALSE]
         IN IF ~c.ok THEN [out |-> "err"]
            ELSE IF c.eq THEN [out |-> "ok", idx |-> symIdx, sym |-> c.sym]
            ELSE IF ch[1] % 2 = 1 THEN [out |-> "none"]
            ELSE GnuWalk(t, class, little, symbuf, strbuf, name, hash, ci + 1)

GnuFind(class, little, hashbuf, symbuf, strbuf, name) ==
    LET t == GnuNew(class, little, hashbuf)
    IN IF ~t.ok THEN [out |-> "err", at |-> "new"]
       ELSE IF t.nbucket = 0 \/ t.nbloom = 0 THEN [out |-> "none"]
       ELSE LET hash == GnuHash(name)
                width == IF class = 32 THEN 32 ELSE 64
                bidx == (IF class = 32 THEN ShrVal(hash, 5) ELSE ShrVal(hash, 6)) % t.nbloom
                filter == IF class = 32 THEN ZExt(U32At(t.bloom, bidx, little), 8) ELSE U64At(t.bloom, bidx, little)
                nshift == Val(t.hdr["nshift"])
            IN IF Bit(filter, BitsAt(hash, 0, IF class = 32 THEN 5 ELSE 6)) = 0 THEN [out |-> "none"]
               ELSE IF nshift = Huge \/ nshift >= 32 THEN [out |-> "err"]                 \* checked_shr
               ELSE IF Bit(filter, BitsAt(hash, nshift, IF class = 32 THEN 5 ELSE 6)) = 0 THEN [out |-> "none"]
               ELSE LET cs == U32At(t.buckets, ModW(hash, t.nbucket), little)
                        ts == t.hdr["table_start_idx"]
                    IN IF LtW(cs, ts) THEN [out |-> "none"]
                       ELSE LET d == Val(SubW(cs, ts)[1])
                            IN IF d = Huge THEN [out |-> "none"]                          \* empty range d..chain_len
                               ELSE GnuWalk(t, class, little, symbuf, strbuf, name, hash, d)

\* ---------------------------------------------------------------- declarative C11 / C12
\* name of symbol i (natural), or "none" marker when it has no readable name
SymName(class, little, symbuf, strbuf, i) ==
    LET s == TblGet("sym", class, little, symbuf, W8(i))
    IN IF ~s.ok THEN <<-1>>
       ELSE LET r == GetRaw(strbuf, ZExt(s.f["st_name"], 8))
            IN IF ~r.ok THEN <<-1>> ELSE SubSeq(strbuf, r.start + 1, r.start + r.len)

\* soundness, any table bytes: a returned (idx, sym) is symtab[idx] and its name is the query
Sound(class, little, symbuf, strbuf, name, res) ==
    res.out = "ok" =>
        LET i == Val(res.idx)
        IN /\ i # Huge
           /\ TblGet("sym", class, little, symbuf, res.idx).ok
           /\ res.sym = TblGet("sym", class, little, symbuf, res.idx).f
           /\ SymName(class, little, symbuf, strbuf, i) = name

\* completeness on a well-formed table covering symbols first..nsyms-1: found iff present
Complete(class, little, symbuf, strbuf, name, first, res) ==
    LET nsyms == TblLen("sym", class, symbuf)
        present == \E i \in first..(nsyms - 1) : SymName(class, little, symbuf, strbuf, i) = name
    IN IF present THEN res.out = "ok" ELSE res.out = "none"

\* well-formedness per the GNU format description (bloom, buckets, chains built for symtab)
GnuWellFormed(class, little, hashbuf, symbuf, strbuf) ==
    LET t == GnuNew(class, little, hashbuf)
        nsyms == TblLen("sym", class, symbuf)
    IN /\ t.ok /\ t.nbucket > 0 /\ t.nbloom > 0
       /\ Val(t.hdr["nshift"]) # Huge /\ Val(t.hdr["nshift"]) < 32
       /\ LET first == Val(t.hdr["table_start_idx"])
              lg == IF class = 32 THEN 5 ELSE 6
          IN /\ first # Huge /\ first >= 1 /\ first <= nsyms
             /\ t.nchain = nsyms - first
             /\ LET nm == [i \in first..(nsyms - 1) |-> SymName(class, little, symbuf, strbuf, i)]
                    hs == [i \in first..(nsyms - 1) |-> GnuHash(nm[i])]             \* evaluated once
                    bs == [i \in first..(nsyms - 1) |-> ModW(hs[i], t.nbucket)]
                    Filter(i) == LET bidx == (IF class = 32 THEN ShrVal(hs[i], 5) ELSE ShrVal(hs[i], 6)) % t.nbloom
                                 IN IF class = 32 THEN ZExt(U32At(t.bloom, bidx, little), 8) ELSE U64At(t.bloom, bidx, little)
                IN /\ \A i \in first..(nsyms - 1) :
                        /\ nm[i] # <<-1>>
                        /\ i > first => bs[i - 1] <= bs[i]                              \* grouped by bucket, ascending
                        /\ LET ch == U32At(t.chains, i - first, little)
                               last == (i = nsyms - 1) \/ bs[i + 1] # bs[i]
                           IN /\ ch[1] \div 2 = hs[i][1] \div 2 /\ ch[2] = hs[i][2] /\ ch[3] = hs[i][3] /\ ch[4] = hs[i][4]
                              /\ (ch[1] % 2 = 1) <=> last
                        /\ Bit(Filter(i), BitsAt(hs[i], 0, lg)) = 1
                        /\ Bit(Filter(i), BitsAt(hs[i], Val(t.hdr["nshift"]), lg)) = 1
                   /\ \A b \in 0..(t.nbucket - 1) :
                        LET members == { i \in first..(nsyms - 1) : bs[i] = b }
                            v == Val(U32At(t.buckets, b, little))
                        IN IF members = {} THEN v = 0
                           ELSE v = CHOOSE m \in members : \A x \in members : m <= x

\* well-formedness per the gABI: every symbol 1..nsyms-1 is on the chain of its bucket
RECURSIVE OnChain(_, _, _, _, _)
OnChain(t, little, cur, target, fuel) ==
    IF cur = 0 \/ fuel = 0 THEN FALSE
    ELSE IF cur = target THEN TRUE
    ELSE IF cur >= t.nchain THEN FALSE
    ELSE OnChain(t, little, Val(U32At(t.chains, cur, little)), target, fuel - 1)
SysvWellFormed(class, little, hashbuf, symbuf, strbuf) ==
    LET t == SysvNew(little, hashbuf)
        nsyms == TblLen("sym", class, symbuf)
    IN /\ t.ok /\ t.nbucket > 0 /\ t.nchain = nsyms
       /\ \A b \in 0..(t.nbucket - 1) : Val(U32At(t.buckets, b, little)) # Huge /\ Val(U32At(t.buckets, b, little)) < nsyms
       /\ \A i \in 0..(nsyms - 1) : Val(U32At(t.chains, i, little)) # Huge /\ Val(U32At(t.chains, i, little)) < nsyms
       /\ \A i \in 1..(nsyms - 1) :
            /\ SymName(class, little, symbuf, strbuf, i) # <<-1>>
            /\ OnChain(t, little,
                       Val(U32At(t.buckets, ModW(SysvHash(SymName(class, little, symbuf, strbuf, i)), t.nbucket), little)),
                       i, nsyms)
=============================================================================
