----------------------------- MODULE MC_Locate -----------------------------
(* C05: where the header tables are.  Objects built from the ABI with nsec sections and nseg
   segments, tables before or after the data, each of the three extended-numbering escapes on or off
   (e_shnum = 0 -> shdr[0].sh_size, e_phnum = 0xffff -> shdr[0].sh_info, e_shstrndx = 0xffff ->
   shdr[0].sh_link, with the three shdr[0] fields pairwise distinct), and one defect at a time:
   wrong e_shentsize / e_phentsize, file cut so that a table does not fit, e_shoff / e_phoff zeroed.
   Ground truth comes from the builder: opening must yield exactly nsec section headers and nseg
   program headers with the built contents, the named section-name table, or fail as C05 says. *)
EXTENDS MCFile
CONSTANTS Classes

VARIABLE c
Set(b, off, w) == [i \in 1..Len(b) |-> IF i > off /\ i <= off + Len(w) THEN w[i - off] ELSE b[i]]
FieldOff(class, name) == 16 + COff(CLayout("tail", class), FieldIdx(CLayout("tail", class), name))

\* z = 1: the fields of shdr[0] that carry nothing (type, flags, alignment, entry size) are not zero - the tables
\* are located by what the header and the three extension fields declare, nothing else
Secs(nsec) == [i \in 1..nsec |->
                 IF i = 1 THEN (IF "z" \in DOMAIN c /\ c.z = 1 THEN [NullSec EXCEPT !.type = 1, !.flags = 2, !.align = 8, !.entsize = 1] ELSE NullSec)
                 ELSE Sec(<<46, 96 + i>>, IF i = 2 THEN 3 ELSE 1, [j \in 1..(i + 1) |-> 16 * i + j])]
Segs(nseg) == [k \in 1..nseg |-> [type |-> 1, flags |-> 4 + k, sec |-> 0, off |-> 16 * k, filesz |-> k, memsz |-> 1, align |-> 16]]

LocDefects == {"none", "shentsize-1", "shentsize+1", "shentsize0", "phentsize-1", "phentsize+1", "cut1", "shoff0", "phoff0"}

Init == c = [stage |-> 0]
Next == \/ c.stage = 0 /\ \E cl \in Classes, l \in BOOLEAN, nsec \in 1..3, nseg \in 0..2 :
                             c' = [stage |-> 1, class |-> cl, little |-> l, nsec |-> nsec, nseg |-> nseg]
        \/ c.stage = 1 /\ \E early \in BOOLEAN, xs \in BOOLEAN, xp \in BOOLEAN, xi \in BOOLEAN, ndx \in 0..2, d \in LocDefects, z \in {0, 1} :
                             /\ ndx < c.nsec /\ (xi => ndx > 0)
                             /\ (xp => c.nseg > 0)
                             /\ (z = 1 => d = "none")
                             /\ c' = [c EXCEPT !.stage = 2] @@ [early |-> early, xs |-> xs, xp |-> xp, xi |-> xi, ndx |-> ndx, d |-> d, z |-> z]


Opts == [early |-> c.early, shstrndx |-> c.ndx, shnum_ext |-> c.xs, phnum_ext |-> c.xp, shstrndx_ext |-> c.xi,
         etype |-> IF c.xp THEN 4 ELSE IF c.early THEN 3 ELSE 1, emachine |-> IF c.xs THEN 8 ELSE 62]           \* (no answer may depend on the kind of object)
Good == BuildObj(c.class, c.little, Secs(c.nsec), Segs(c.nseg), Opts)
Enc16(n) == IF c.little THEN W2(n) ELSE Rev(W2(n))
ShEs == CSize("shdr", c.class)
PhEs == CSize("phdr", c.class)
FileB ==
    CASE c.d = "none" -> Good
      [] c.d = "shentsize-1" -> Set(Good, FieldOff(c.class, "e_shentsize"), Enc16(ShEs - 1))
      [] c.d = "shentsize+1" -> Set(Good, FieldOff(c.class, "e_shentsize"), Enc16(ShEs + 1))
      [] c.d = "shentsize0"  -> Set(Good, FieldOff(c.class, "e_shentsize"), Enc16(0))
      [] c.d = "phentsize-1" -> Set(Good, FieldOff(c.class, "e_phentsize"), Enc16(PhEs - 1))
      [] c.d = "phentsize+1" -> Set(Good, FieldOff(c.class, "e_phentsize"), Enc16(PhEs + 1))
      [] c.d = "cut1" -> SubSeq(Good, 1, Len(Good) - 1)
      [] c.d = "shoff0" -> Set(Good, FieldOff(c.class, "e_shoff"), Zeros(IF c.class = 32 THEN 4 ELSE 8))
      [] c.d = "phoff0" -> Set(Good, FieldOff(c.class, "e_phoff"), Zeros(IF c.class = 32 THEN 4 ELSE 8))

f == F(FileB)
o == Open(f, "Any")

\* C05, declaratively, against the builder's ground truth
Prop_C05 ==
    CASE c.d = "none" ->
           /\ o.ok /\ NSh(o) = c.nsec /\ NPh(o) = c.nseg
           /\ \A i \in 1..(c.nsec - 1) :                                       \* section i is the built section
                LET h == ShdrAt(f, o, i)
                IN FSub(f, Val(h["sh_offset"]), Val(h["sh_size"])) = (IF i = c.ndx THEN ShStr(Secs(c.nsec)) ELSE Secs(c.nsec)[i + 1].data)
           /\ \A k \in 1..c.nseg : Val(PhdrAt(f, o, k - 1)["p_flags"]) = 4 + k /\ Val(PhdrAt(f, o, k - 1)["p_filesz"]) = k
           /\ LET st == ShStrTab(f, o)
              IN IF c.ndx = 0 THEN st.ok /\ ~st.some
                 ELSE st.ok /\ st.some /\ FSub(f, st.start, st.len) = ShStr(Secs(c.nsec))
      [] c.d \in {"shentsize-1", "shentsize+1", "shentsize0"} -> ~o.ok
      [] c.d \in {"phentsize-1", "phentsize+1"} -> (c.nseg > 0 => ~o.ok) /\ (c.nseg = 0 => o.ok)
      [] c.d = "cut1" -> \* open succeeds exactly when both tables still fit in the shortened file
           LET phEnd == EhSize(c.class) + c.nseg * PhEs
               shEnd == IF c.early THEN phEnd + c.nsec * ShEs ELSE Len(Good)
           IN o.ok <=> (shEnd <= Len(Good) - 1 /\ phEnd <= Len(Good) - 1)
      [] c.d = "shoff0" -> (o.ok => o.sh = <<>>)                                 \* absent table
      [] c.d = "phoff0" -> (o.ok => o.ph = <<>>)

Qs == << [name |-> "shdrs_with_strtab"], [name |-> "shdr_by_name", qname |-> <<46, 99>>],
         [name |-> "symbol_table"], [name |-> "dynamic"] >>
Emit == PrintT(ToJson(Session(FileB, "Any", Qs, [family |-> "mc-locate", d |-> c.d])))
Inv == c.stage = 2 => (Prop_C05 /\ Emit)
=============================================================================
