INIT Init
NEXT Next
INVARIANT Inv
CONSTANTS
 Kind = "sysv"
 Encs = {1, 4}
 Buckets = {1, 2, 3, 5}
 Blooms = {1}
 Shifts = {0}
 SymOffs = {1}
 MaxNames = 4
 PoolSel = "boundary"
CHECK_DEADLOCK FALSE
