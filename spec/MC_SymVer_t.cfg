INIT Init
NEXT Next
INVARIANT Inv
CONSTANTS
 Encs = {1, 2, 3, 4}
 Layouts = {1, 2}
 IdxBases = {0, 252, 32510}
CHECK_DEADLOCK FALSE
