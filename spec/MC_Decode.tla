----------------------------- MODULE MC_Decode -----------------------------
(* C02: for every structure, class and byte order, decoding (code side, Parse.tla) the ABI encoding
   (ABI side, Abi.tla) of field values yields exactly those values widened per the ABI, consumes
   exactly the structure's ABI size, and splits packed fields as the ABI macros do. *)
EXTENDS Parse, Abi, Json
CONSTANTS FullVersym      \* TRUE: VersionIndex accessors over all 65536 values

Types == Structs \ {"nhdr"}
ES == {"LE", "BE", "AnyL", "AnyB"}
IsLittle(es) == es \in {"LE", "AnyL"}

\* boundary values of a w-byte field
Bnd(w, k) == CASE k = 1 -> Zeros(w)
               [] k = 2 -> [i \in 1..w |-> IF i = 1 THEN 1 ELSE 0]
               [] k = 3 -> [i \in 1..w |-> IF i = w THEN 127 ELSE 255]      \* 0x7f..ff
               [] k = 4 -> [i \in 1..w |-> IF i = w THEN 128 ELSE 0]        \* 0x80..00
               [] k = 5 -> Ones(w)

\* background: every byte of the structure distinct (base + position), so that swapped fields of
\* equal width and lost high halves are visible
Vals(ty, class, base, f, k, ver) ==
    LET lay == CLayout(ty, class)
    IN [n \in {lay[i][1] : i \in 1..Len(lay)} |->
          LET i == FieldIdx(lay, n)
              w == lay[i][2]
              o == COff(lay, i)
          IN IF n \in {"vd_version", "vn_version"} THEN ver
             ELSE IF i = f THEN Bnd(w, k)
             ELSE [j \in 1..w |-> base + o + j - 1]]

VARIABLE c
Init == \/ c \in { [kind |-> "struct", ty |-> ty, class |-> cl, es |-> es, base |-> b, f |-> f, k |-> k, ver |-> v] :
                     ty \in Types, cl \in {32, 64}, es \in ES, b \in {16, 144}, f \in 0..13, k \in 1..5,
                     v \in {<<1, 0>>, <<2, 0>>, <<0, 1>>} }
              /\ c.f <= Len(CLayout(c.ty, c.class))
              /\ (c.f = 0 => c.k = 1)
              /\ (c.ver # <<1, 0>> => c.ty \in {"verdef", "verneed"} /\ c.f = 0 /\ c.base = 16)
        \/ c \in { [kind |-> "acc", what |-> w, v |-> <<x>>] : w \in {"st_info", "st_other"}, x \in 0..255 }
        \/ c \in { [kind |-> "acc", what |-> w, v |-> <<x, y>>] : w \in {"st_shndx", "versym"},
                     x \in IF FullVersym THEN 0..255 ELSE {0, 1, 2, 127, 128, 255},
                     y \in IF FullVersym THEN 0..255 ELSE {0, 1, 127, 128, 129, 255} }
Next == UNCHANGED c

\* what the ABI says the crate must present (public fields only)
AbiExpected(ty, class, vals) ==
    LET e == Ext(ty, class, vals)
        drop == {"ch_reserved", "vd_version", "vn_version", "r_info"} \cup Private
        keep == [n \in (DOMAIN e) \ drop |-> e[n]]
    IN IF ty \in {"rel", "rela"}
       THEN LET info == ZExt(vals["r_info"], IF class = 32 THEN 4 ELSE 8)
            IN keep @@ ("r_sym" :> IF class = 32 THEN ELF32_R_SYM(info) ELSE ELF64_R_SYM(info))
                    @@ ("r_type" :> IF class = 32 THEN ELF32_R_TYPE(info) ELSE ELF64_R_TYPE(info))
       ELSE keep

Bytes == Enc(c.ty, c.class, IsLittle(c.es), Vals(c.ty, c.class, c.base, c.f, c.k, c.ver))
Dec == ParseAt(c.ty, c.class, IsLittle(c.es), Bytes, W8(0))

Prop_C02 ==
    IF c.kind = "struct" THEN
        /\ Len(Bytes) = CSize(c.ty, c.class)
        /\ SizeFor(c.ty, c.class) = CSize(c.ty, c.class)
        /\ IF c.ver = <<1, 0>>
           THEN /\ Dec.ok
                /\ Pub(Dec.f) = AbiExpected(c.ty, c.class, Vals(c.ty, c.class, c.base, c.f, c.k, c.ver))
                /\ Dec.off = CSize(c.ty, c.class)
           ELSE ~Dec.ok
    ELSE TRUE

AccExp == LET v == c.v IN
    CASE c.what = "st_info"  -> <<ST_BIND(v[1]), ST_TYPE(v[1]), 0, 0>>
      [] c.what = "st_other" -> <<ST_VISIBILITY(v[1]), 0, 0, 0>>
      [] c.what = "st_shndx" -> <<IF Val(v) = SHN_UNDEF THEN 1 ELSE 0, 0, 0, 0>>
      [] c.what = "versym"   -> << Val(VER_NDX(v)), IF VER_HIDDEN(v) THEN 1 ELSE 0,
                                   IF Val(VER_NDX(v)) = 0 THEN 1 ELSE 0, IF Val(VER_NDX(v)) = 1 THEN 1 ELSE 0 >>

Emit ==
    IF c.kind = "acc" THEN PrintT(ToJson([op |-> "acc", what |-> c.what, v |-> c.v, exp |-> [out |-> "ok", r |-> AccExp]]))
    ELSE IF c.ty = "tail"
    THEN PrintT(ToJson([op |-> "tail", es |-> c.es, class |-> c.class, osabi |-> <<c.base>>, abiversion |-> <<c.k>>,
                        buf |-> Bytes,
                        exp |-> [out |-> "ok", f |-> Pub(Dec.f) @@ ("class" :> c.class) @@ ("little" :> IsLittle(c.es))
                                                   @@ ("osabi" :> <<c.base>>) @@ ("abiversion" :> <<c.k>>)]]))
    ELSE PrintT(ToJson([op |-> "parse_at", ty |-> c.ty, class |-> c.class, es |-> c.es, buf |-> Bytes, off |-> W8(0),
                        exp |-> IF Dec.ok THEN [out |-> "ok", f |-> Pub(Dec.f), off |-> W8(Dec.off),
                                                size |-> CSize(c.ty, c.class)]
                                ELSE [out |-> "err", size |-> CSize(c.ty, c.class)]]))
Inv == Prop_C02 /\ Emit
=============================================================================
