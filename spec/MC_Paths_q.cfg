INIT Init
NEXT Next
INVARIANT Inv
CONSTANTS
 Classes = {64}
CHECK_DEADLOCK FALSE
