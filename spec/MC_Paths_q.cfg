INIT Init
NEXT Next
INVARIANT Inv
CONSTANTS
 Classes = {32, 64}
CHECK_DEADLOCK FALSE
