INIT Init
NEXT Next
INVARIANT Inv
CONSTANTS
 Kind = "gnu"
 Encs = {1, 2, 3, 4}
 Buckets = {1, 2, 3}
 Blooms = {1, 2}
 Shifts = {0, 5, 31}
 SymOffs = {1, 2}
 MaxNames = 3
 PoolSel = "base"
CHECK_DEADLOCK FALSE
