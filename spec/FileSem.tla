------------------------------ MODULE FileSem ------------------------------
(***************************************************************************)
(* Result semantics of every ElfBytes / ElfStream query in the JSON shape  *)
(* of the recorded events: QOut gives the outcome class ("ok" / "none" /   *)
(* "err"), QDet the detail fields an "ok" result must carry.  Index lists  *)
(* (which table entries were projected) and name lists are taken from the  *)
(* event; everything else is computed from the file bytes.                 *)
(***************************************************************************)
EXTENDS ElfFile

HasK(e, k) == k \in DOMAIN e
\* index list of a recorded table projection (absent when the implementation reported no table)
Idx(r) == IF "idx" \in DOMAIN r THEN r.idx ELSE <<>>

\* ---- JSON shapes ---------------------------------------------------------------------
TblJ(ty, class, little, b, idx) == [some |-> TRUE] @@ TblProj(ty, class, little, b, idx) @@ [idx |-> idx]
StrJ(f, r, stream) ==
    LET p == StrProj(f, r.start, r.len)
    IN IF stream THEN [some |-> TRUE, nstr |-> p.nstr, walked |-> p.walked, ck |-> p.ck]
       ELSE [some |-> TRUE, nstr |-> p.nstr, walked |-> p.walked, ck |-> p.ck, start |-> p.start]
DataJ(f, start, len, stream) ==
    LET p == DataProj(f, start, len)
    IN IF stream THEN [len |-> p.len, ck |-> p.ck] ELSE p
NoneJ == [some |-> FALSE]

EhdrJ(h) == h

\* entries of a header table at the recorded indices
HdrTblJ(f, ty, class, little, t, idx) ==
    [some |-> TRUE, n |-> W8(t.n), idx |-> idx,
     ents |-> [k \in 1..Len(idx) |->
                 LET i == Val(idx[k]) es == EntSz(ty, class)
                 IN IF i = Huge \/ i >= t.n THEN [bad |-> TRUE]
                    ELSE ParseNat(ty, class, little, FSub(f, t.off + i * es, es), 0).f]]

\* ---- open ------------------------------------------------------------------------------
\* stream = TRUE: an absent table is an empty vector
OpenDet(f, o, e, stream) ==
    [ehdr |-> EhdrJ(o.h),
     sh |-> IF o.sh = <<>> THEN (IF stream THEN [some |-> TRUE, n |-> W8(0), idx |-> <<>>, ents |-> <<>>] ELSE NoneJ)
            ELSE HdrTblJ(f, "shdr", o.class, o.little, o.sh, Idx(e.res.sh)),
     ph |-> IF o.ph = <<>> THEN (IF stream THEN [some |-> TRUE, n |-> W8(0), idx |-> <<>>, ents |-> <<>>] ELSE NoneJ)
            ELSE HdrTblJ(f, "phdr", o.class, o.little, o.ph, Idx(e.res.ph))]

\* ---- queries -----------------------------------------------------------------------------
\* notes with positions relative to the file (slice parser) or to the returned buffer (stream)
LC(b, rng) == [len |-> rng[2], ck |-> Ck(Bytes(b, rng))]
RelNote(n, b) ==
    CASE n.k = "any" -> [k |-> "any", n_type |-> n.n_type, name |-> LC(b, n.name), desc |-> LC(b, n.desc),
                         name_str |-> IF n.name_str.out = "ok" THEN [out |-> "ok", len |-> n.name_str.s[2]] ELSE [out |-> "err"]]
      [] n.k = "buildid" -> [k |-> "buildid", desc |-> LC(b, n.desc)]
      [] OTHER -> n
NotesJ(f, eb, d, alignW, stream) ==
    IF stream
    THEN LET b == TLCEval(FSub(f, d.start, d.len))
             ns == Notes(eb.little, alignW, b)
         IN [n |-> Len(ns), items |-> [i \in 1..Len(ns) |-> RelNote(ns[i], b)]]
    ELSE LET ns == NotesAt(f, eb, d.start, d.len, alignW)
         IN [n |-> Len(ns), items |-> ns]

RelsJ(f, eb, ty, d) ==
    LET items == IterAll(ty, eb.class, eb.little, TLCEval(FSub(f, d.start, d.len)))
    IN [n |-> Len(items), items |-> [i \in 1..Len(items) |-> Pub(items[i])]]

\* one symbol-version query, as recorded inside a symbol_version_table result
SvOne(f, a, t, q, stream) ==
    IF q.k = "req"
    THEN LET r == GetRequirement(a.class, a.little, a.versym, a.need, q.i)
         IN IF r.out # "ok" THEN [out |-> r.out]
            ELSE LET fb == Bytes(a.need.str, r.file) nb == Bytes(a.need.str, r.name)
                     base == [out |-> "ok", file_b |-> fb, name_b |-> nb, hash |-> r.hash, flags |-> r.flags, hidden |-> r.hidden]
                 IN IF stream THEN base
                    ELSE base @@ [file |-> ShiftR(r.file, t.need.str.start), name |-> ShiftR(r.name, t.need.str.start)]
    ELSE LET r == GetDefinition(a.class, a.little, a.versym, a.def, q.i)
         IN IF r.out # "ok" THEN [out |-> r.out]
            ELSE [out |-> "ok", hash |-> r.hash, flags |-> r.flags, hidden |-> r.hidden,
                  names |-> [j \in 1..Len(r.names) |->
                               IF r.names[j].out # "ok" THEN [out |-> "err"]
                               ELSE IF stream THEN [out |-> "ok", b |-> Bytes(a.def.str, r.names[j].s)]
                               ELSE [out |-> "ok", b |-> Bytes(a.def.str, r.names[j].s),
                                     s |-> ShiftR(r.names[j].s, t.def.str.start)]]]
\* compare a recorded symbol-version answer with the computed one (error kinds are not compared)
SvMatch(rec, exp) == rec.out = exp.out /\ (exp.out = "ok" => \A k \in DOMAIN exp : k \in DOMAIN rec /\ rec[k] = exp[k])

FindJ(r) == IF r.out = "ok" THEN [out |-> "ok", idx |-> r.idx, sym |-> r.sym] ELSE [out |-> r.out]
FindMatch(rec, exp) == rec.out = exp.out /\ (exp.out = "ok" => rec.idx = exp.idx /\ rec.sym = exp.sym)

\* the outcome class of a query
QOut(f, eb, e, stream) ==
    LET n == e.name IN
    CASE n = "shdrs_with_strtab" -> (LET s == IF stream THEN ShStrTabS(f, eb) ELSE ShStrTab(f, eb) IN IF s.ok THEN "ok" ELSE "err")
      [] n = "shdr_by_name" -> ShdrByName(f, eb, e.qname, stream).out
      [] n = "section_data" -> SectionData(f, eb, e.shdr).out
      [] n = "section_data_as_strtab" -> TypedSection(f, eb, e.shdr, SHT_STRTAB, stream).out
      [] n = "section_data_as_rels" -> TypedSection(f, eb, e.shdr, SHT_REL, stream).out
      [] n = "section_data_as_relas" -> TypedSection(f, eb, e.shdr, SHT_RELA, stream).out
      [] n = "section_data_as_notes" -> TypedSection(f, eb, e.shdr, SHT_NOTE, stream).out
      [] n = "segment_data" -> SegmentData(f, e.phdr).out
      [] n = "segment_data_as_notes" -> SegmentNotes(f, e.phdr).out
      [] n = "symbol_table" -> SymTab(f, eb, SHT_SYMTAB).out
      [] n = "dynamic_symbol_table" -> SymTab(f, eb, SHT_DYNSYM).out
      [] n = "dynamic" -> Dynamic(f, eb, stream).out
      [] n = "symbol_version_table" -> SymVerTable(f, eb).out
      [] n = "find_common_data" -> IF CommonData(f, eb).ok THEN "ok" ELSE "err"

\* the error kind where a property names it (C20: wrong type; C05: entsize), else "any"
QErrKind(f, eb, e, stream) ==
    LET n == e.name IN
    CASE n \in {"section_data_as_strtab", "section_data_as_rels", "section_data_as_relas", "section_data_as_notes"} ->
            (LET w == CASE n = "section_data_as_strtab" -> SHT_STRTAB [] n = "section_data_as_rels" -> SHT_REL
                        [] n = "section_data_as_relas" -> SHT_RELA [] OTHER -> SHT_NOTE
             IN IF Val(e.shdr["sh_type"]) # w THEN "UnexpectedSectionType" ELSE "any")
      [] n = "segment_data_as_notes" -> IF Val(e.phdr["p_type"]) # PT_NOTE THEN "UnexpectedSegmentType" ELSE "any"
      [] OTHER -> "any"

\* detail fields of an "ok" result
QDet(f, eb, e, stream) ==
    LET n == e.name IN
    CASE n = "shdrs_with_strtab" ->
            (LET s == IF stream THEN ShStrTabS(f, eb) ELSE ShStrTab(f, eb)
             IN [sh_some |-> IF stream THEN TRUE ELSE eb.sh # <<>>,
                 strtab |-> IF s.some THEN StrJ(f, s, stream) ELSE NoneJ])
      [] n = "shdr_by_name" -> [f |-> ShdrByName(f, eb, e.qname, stream).f]
      [] n = "section_data" ->
            (LET d == SectionData(f, eb, e.shdr) IN [data |-> DataJ(f, d.start, d.len, stream), chdr |-> d.chdr])
      [] n = "section_data_as_strtab" ->
            [str |-> StrJ(f, TypedSection(f, eb, e.shdr, SHT_STRTAB, stream), stream)]
      [] n = "section_data_as_rels" -> RelsJ(f, eb, "rel", TypedSection(f, eb, e.shdr, SHT_REL, stream))
      [] n = "section_data_as_relas" -> RelsJ(f, eb, "rela", TypedSection(f, eb, e.shdr, SHT_RELA, stream))
      [] n = "section_data_as_notes" ->
            NotesJ(f, eb, TypedSection(f, eb, e.shdr, SHT_NOTE, stream), e.shdr["sh_addralign"], stream)
      [] n = "segment_data" -> (LET d == SegmentData(f, e.phdr) IN [data |-> DataJ(f, d.start, d.len, stream)])
      [] n = "segment_data_as_notes" -> NotesJ(f, eb, SegmentNotes(f, e.phdr), e.phdr["p_align"], stream)
      [] n \in {"symbol_table", "dynamic_symbol_table"} ->
            (LET t == SymTab(f, eb, IF n = "symbol_table" THEN SHT_SYMTAB ELSE SHT_DYNSYM)
             IN [sym |-> TblJ("sym", eb.class, eb.little, FSub(f, t.sym.start, t.sym.len), Idx(e.res.sym)),
                 str |-> StrJ(f, t.str, stream)])
      [] n = "dynamic" ->
            (LET d == Dynamic(f, eb, stream)
             IN [tbl |-> TblJ("dyn", eb.class, eb.little, FSub(f, d.start, d.len), Idx(e.res.tbl))])
      [] n = "symbol_version_table" -> [x \in {} |-> 0]          \* the embedded answers are compared by SvAll
      [] n = "find_common_data" ->
            (LET c == CommonData(f, eb)
                 T(r, k) == IF r = <<>> THEN NoneJ ELSE TblJ("sym", eb.class, eb.little, FSub(f, r.start, r.len), Idx(e.res[k]))
                 S(r) == IF r = <<>> THEN NoneJ ELSE StrJ(f, r, FALSE)
             IN [symtab |-> T(c.symtab, "symtab"), symtab_strs |-> S(c.symtab_strs),
                 dynsyms |-> T(c.dynsyms, "dynsyms"), dynsyms_strs |-> S(c.dynsyms_strs),
                 dynamic |-> IF c.dynamic = <<>> THEN NoneJ
                             ELSE TblJ("dyn", eb.class, eb.little, FSub(f, c.dynamic.start, c.dynamic.len), Idx(e.res.dynamic))])

\* symbol_version_table: every embedded answer
SvAll(f, eb, e, stream) ==
    LET t == SymVerTable(f, eb)
        a == SvArgs(f, eb, t)
    IN \A j \in 1..Len(e.res.qs) : SvMatch(e.res.qs[j].r, SvOne(f, a, t, e.res.qs[j], stream))

\* find_common_data: hash tables are compared by behaviour (lookups through the dynamic symbol table)
CommonHash(f, eb, e) ==
    LET c == CommonData(f, eb)
        have == c.dynsyms # <<>>
        sy == IF have THEN FSub(f, c.dynsyms.start, c.dynsyms.len) ELSE <<>>
        st == IF have THEN FSub(f, c.dynsyms_strs.start, c.dynsyms_strs.len) ELSE <<>>
    IN /\ e.res.sysv.some = (c.sysv_hash # <<>>)
       /\ e.res.gnu.some = (c.gnu_hash # <<>>)
       /\ c.gnu_hash # <<>> => "hdr" \in DOMAIN e.res.gnu /\ e.res.gnu.hdr = GnuNew(eb.class, eb.little, FSub(f, c.gnu_hash.start, c.gnu_hash.len)).hdr
       /\ (have /\ c.sysv_hash # <<>>) =>
             /\ "finds" \in DOMAIN e.res.sysv
             /\ Len(e.res.sysv.finds) = Len(e.names)
             /\ \A j \in 1..Len(e.names) :
                  FindMatch(e.res.sysv.finds[j],
                            FindJ(SysvFind(eb.class, eb.little, FSub(f, c.sysv_hash.start, c.sysv_hash.len), sy, st, e.names[j])))
       /\ (have /\ c.gnu_hash # <<>>) =>
             /\ "finds" \in DOMAIN e.res.gnu
             /\ Len(e.res.gnu.finds) = Len(e.names)
             /\ \A j \in 1..Len(e.names) :
                  FindMatch(e.res.gnu.finds[j],
                            FindJ(GnuFind(eb.class, eb.little, FSub(f, c.gnu_hash.start, c.gnu_hash.len), sy, st, e.names[j])))


\* ---- the byte ranges a query designates (C08 laziness, C07 content) ------------------------
\* sequences of [start, len]; only ranges that lie inside the file are listed
RangeSeq(r) == IF r.ok THEN << <<r.start, r.len>> >> ELSE <<>>
ShRange(f, s) == RangeSeq(Range(f, s["sh_offset"], s["sh_size"]))
LinkRange(f, eb, s) == LET l == ShdrGet(f, eb, ZExt(s["sh_link"], 8)) IN IF l.ok THEN ShRange(f, l.f) ELSE <<>>

QRanges(f, eb, e, stream) ==
    LET n == e.name IN
    CASE n \in {"shdrs_with_strtab", "shdr_by_name"} ->
            (LET s == IF stream THEN ShStrTabS(f, eb) ELSE ShStrTab(f, eb)
             IN IF s.ok /\ s.some THEN << <<s.start, s.len>> >> ELSE <<>>)
      [] n = "section_data" ->
            IF Val(e.shdr["sh_type"]) = SHT_NOBITS THEN <<>> ELSE ShRange(f, e.shdr)
      [] n \in {"section_data_as_strtab", "section_data_as_rels", "section_data_as_relas", "section_data_as_notes"} ->
            ShRange(f, e.shdr)
      [] n \in {"segment_data", "segment_data_as_notes"} -> RangeSeq(Range(f, e.phdr["p_offset"], e.phdr["p_filesz"]))
      [] n \in {"symbol_table", "dynamic_symbol_table"} ->
            (LET i == FirstShType(f, eb, IF n = "symbol_table" THEN SHT_SYMTAB ELSE SHT_DYNSYM, 0)
             IN IF i < 0 THEN <<>> ELSE ShRange(f, ShdrAt(f, eb, i)) \o LinkRange(f, eb, ShdrAt(f, eb, i)))
      [] n = "dynamic" ->
            (LET d == Dynamic(f, eb, stream) IN IF d.out = "ok" THEN << <<d.start, d.len>> >> ELSE <<>>)
      [] n = "symbol_version_table" ->
            (IF NSh(eb) = 0 THEN <<>>
             ELSE LET sc == VerScan(f, eb, 0, -1, -1, -1)
                      P(i) == IF i < 0 THEN <<>> ELSE ShRange(f, ShdrAt(f, eb, i)) \o LinkRange(f, eb, ShdrAt(f, eb, i))
                  IN IF sc[1] < 0 THEN <<>> ELSE ShRange(f, ShdrAt(f, eb, sc[1])) \o P(sc[2]) \o P(sc[3]))
      [] OTHER -> <<>>

\* open: the file header, shdr[0] when extended numbering needs it, and the two header tables
OpenRanges(f, spec) ==
    LET e == ParseEhdr(f, spec)
        hs == << <<0, 16>>, <<16, 48>> >>
    IN IF ~e.ok THEN hs
       ELSE LET es == EntSz("shdr", e.h.class)
                o == Val(e.h["e_shoff"])
                s0 == IF o # Huge /\ o <= f.len /\ o + es <= f.len THEN << <<o, es>> >> ELSE <<>>
                sh == FindShdrs(f, e.h)
                ph == FindPhdrs(f, e.h)
            IN hs \o s0
                  \o (IF sh.ok /\ sh.t # <<>> THEN << <<sh.t.off, sh.t.n * es>> >> ELSE <<>>)
                  \o (IF ph.ok /\ ph.t # <<>> THEN << <<ph.t.off, ph.t.n * EntSz("phdr", e.h.class)>> >> ELSE <<>>)

\* every byte actually read lies inside a designated range
ReadsWithin(io, ranges) ==
    \A k \in 1..Len(io) :
        (io[k].op = "read" /\ io[k].got > 0) =>
            \E j \in 1..Len(ranges) : ranges[j][1] <= io[k].at /\ io[k].at + io[k].got <= ranges[j][1] + ranges[j][2]

\* ---- C07: the stream parser's answer vs the slice parser's on the same file -----------------
ExactC07 == {"section_data", "symbol_table", "dynamic_symbol_table", "symbol_version_table", "segment_data_as_notes"}
FirstDynCompressed(f, eb) ==
    LET i == FirstShType(f, eb, SHT_DYNAMIC, 0) IN i >= 0 /\ Bit(ShdrAt(f, eb, i)["sh_flags"], SHF_COMPRESSED_BIT) = 1
InScopeC07(f, eb, e) ==
    /\ (eb.sh = <<>> \/ eb.sh.n > 0)
    /\ HasK(e, "shdr") => Bit(e.shdr["sh_flags"], SHF_COMPRESSED_BIT) = 0
    /\ e.name = "dynamic" => ~FirstDynCompressed(f, eb)
RelC07(f, eb, e) ==
    InScopeC07(f, eb, e) =>
        LET a == QOut(f, eb, e, FALSE)
            b == QOut(f, eb, e, TRUE)
        IN /\ a \in {"ok", "none"} => b = a
           /\ e.name \in ExactC07 => a = b
           /\ (a = "ok" /\ b = "ok") => QRanges(f, eb, e, FALSE) = QRanges(f, eb, e, TRUE)

\* ---- where the properties are silent: more than one section of a kind ----------------------------
\* The gABI allows at most one symtab / dynsym / .dynamic / hash / version section.  With several (only reachable
\* through corruption) the code's choice (first for the targeted accessors, last for find_common_data, "last
\* before all three were seen" for the version sections) is an implementation detail no listed property fixes,
\* so the answers to the affected queries are not judged.
RECURSIVE CountShType(_, _, _, _)
CountShType(f, eb, tw, i) == IF i >= NSh(eb) THEN 0 ELSE (IF ShdrAt(f, eb, i)["sh_type"] = tw THEN 1 ELSE 0) + CountShType(f, eb, tw, i + 1)
Dup(f, eb, types) == \E tw \in types : CountShType(f, eb, tw, 0) > 1
Unjudged(f, eb, e) ==
    LET n == e.name IN
    CASE n = "symbol_table" -> Dup(f, eb, {W4(SHT_SYMTAB)})
      [] n = "dynamic_symbol_table" -> Dup(f, eb, {W4(SHT_DYNSYM)})
      [] n = "dynamic" -> Dup(f, eb, {W4(SHT_DYNAMIC)})
      [] n = "symbol_version_table" -> Dup(f, eb, {W_VERSYM, W_VERNEED, W_VERDEF})
      [] n = "find_common_data" -> Dup(f, eb, {W4(SHT_SYMTAB), W4(SHT_DYNSYM), W4(SHT_DYNAMIC), W4(SHT_HASH), W_GNU_HASH})
      [] OTHER -> FALSE

\* does recorded query event e (result e.res) agree with the semantics on file f / handle eb?
QueryOk(f, eb, e, stream) ==
    Unjudged(f, eb, e) \/
    LET o == QOut(f, eb, e, stream)
    IN /\ e.res.out = o
       /\ o = "err" => (QErrKind(f, eb, e, stream) = "any" \/ e.res.kind = QErrKind(f, eb, e, stream))
       /\ o = "ok" =>
            /\ LET d == QDet(f, eb, e, stream) IN \A k \in DOMAIN d : k \in DOMAIN e.res /\ e.res[k] = d[k]
            /\ e.name = "symbol_version_table" => SvAll(f, eb, e, stream)
            /\ e.name = "find_common_data" => CommonHash(f, eb, e)

OpenOk(f, e, stream) ==
    LET o == Open(f, e.es)
    IN IF o.ok THEN /\ e.res.out = "ok"
                    /\ LET d == OpenDet(f, o, e, stream) IN \A k \in DOMAIN d : k \in DOMAIN e.res /\ e.res[k] = d[k]
       ELSE /\ e.res.out = "err"
            /\ f.len >= 16 => IdentResOk(e.es, FSub(f, 0, 16), [out |-> "err", kind |-> e.res.kind, payload |-> e.res.payload])
                              \/ Defects(e.es, FSub(f, 0, 16)) = {}
=============================================================================
