INIT Init
NEXT Next
INVARIANT Inv
CONSTANTS
 Encodings = {2, 3}
CHECK_DEADLOCK FALSE
