INIT Init
NEXT Next
INVARIANT Inv
CONSTANTS
 Encodings = {2}
CHECK_DEADLOCK FALSE
