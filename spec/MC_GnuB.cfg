INIT Init
NEXT Next
INVARIANT Inv
CONSTANTS
 Kind = "gnu"
 Encs = {1, 4}
 Buckets = {1, 2, 3}
 Blooms = {1}
 Shifts = {0, 5}
 SymOffs = {1}
 MaxNames = 4
 PoolSel = "boundary"
CHECK_DEADLOCK FALSE
