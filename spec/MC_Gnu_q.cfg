INIT Init
NEXT Next
INVARIANT Inv
CONSTANTS
 Kind = "gnu"
 Encs = {2, 3}
 Buckets = {1, 2}
 Blooms = {1, 2}
 Shifts = {0, 5}
 SymOffs = {1, 2}
 MaxNames = 2
 PoolSel = "base"
CHECK_DEADLOCK FALSE
