------------------------------- MODULE Build -------------------------------
(* ELF object encoder written from the gABI (uses the ABI-side layouts of Abi.tla): file header,
   optional program header table, section contents back to back, section header table early or
   late.  Used by the MC_* instances to build template files whose ground truth is known. *)
EXTENDS Abi

\* a section: [name (bytes), type (nat), flags (nat), data (bytes), link, info, align, entsize]
\* a segment: [type, flags, sec (index of the section it covers, 0 = explicit), off, filesz, memsz, align]
Ident(class, little) == <<127, 69, 76, 70, IF class = 32 THEN 1 ELSE 2, IF little THEN 1 ELSE 2, 1, 0, 0, 0, 0, 0, 0, 0, 0, 0>>
EhSize(class) == 16 + CSize("tail", class)

RECURSIVE CatAll(_, _)
CatAll(seqs, n) == IF n = 0 THEN <<>> ELSE CatAll(seqs, n - 1) \o seqs[n]

\* section-name string table contents and name offsets
RECURSIVE NameOffs(_, _, _, _)
NameOffs(secs, i, pos, acc) ==
    IF i > Len(secs) THEN acc
    ELSE IF Len(secs[i].name) = 0 THEN NameOffs(secs, i + 1, pos, Append(acc, 0))
    ELSE NameOffs(secs, i + 1, pos + Len(secs[i].name) + 1, Append(acc, pos))
ShStr(secs) == <<0>> \o CatAll([i \in 1..Len(secs) |-> IF Len(secs[i].name) = 0 THEN <<>> ELSE Append(secs[i].name, 0)], Len(secs))

\* offsets of the section contents when laid out back to back from `start`
RECURSIVE DataOffs(_, _, _, _)
DataOffs(secs, i, pos, acc) ==
    IF i > Len(secs) THEN acc
    ELSE DataOffs(secs, i + 1, pos + (IF secs[i].type = 8 THEN 0 ELSE Len(secs[i].data)), Append(acc, pos))

\* opts: [early (tables before data), shstrndx, shnum_ext, phnum_ext, shstrndx_ext]
BuildObj(class, little, secs0, segs, opts) ==
    LET secs == [i \in 1..Len(secs0) |-> IF i = opts.shstrndx + 1 /\ opts.shstrndx > 0
                                         THEN [secs0[i] EXCEPT !.data = ShStr(secs0)] ELSE secs0[i]]
        nsec == Len(secs) nseg == Len(segs)
        shes == CSize("shdr", class) phes == CSize("phdr", class)
        phoff == IF nseg > 0 THEN EhSize(class) ELSE 0
        afterPh == EhSize(class) + nseg * phes
        shoffEarly == afterPh
        dataStart == IF opts.early THEN afterPh + nsec * shes ELSE afterPh
        offs == DataOffs(secs, 1, dataStart, <<>>)
        dataEnd == IF nsec = 0 THEN dataStart ELSE offs[nsec] + (IF secs[nsec].type = 8 THEN 0 ELSE Len(secs[nsec].data))
        shoff == IF nsec = 0 THEN 0 ELSE IF opts.early THEN shoffEarly ELSE dataEnd
        noffs == NameOffs(secs, 1, 1, <<>>)
        tail == Enc("tail", class, little,
                    [e_type |-> W2(opts.etype), e_machine |-> W2(opts.emachine), version |-> W4(1), e_entry |-> W8(4096),
                     e_phoff |-> W8(phoff), e_shoff |-> W8(shoff), e_flags |-> W4(0), e_ehsize |-> W2(EhSize(class)),
                     e_phentsize |-> W2(IF nseg > 0 THEN phes ELSE 0),
                     e_phnum |-> W2(IF opts.phnum_ext THEN 65535 ELSE nseg),
                     e_shentsize |-> W2(IF nsec > 0 THEN shes ELSE 0),
                     e_shnum |-> W2(IF opts.shnum_ext THEN 0 ELSE nsec),
                     e_shstrndx |-> W2(IF opts.shstrndx_ext THEN 65535 ELSE opts.shstrndx)])
        shdrOf(i) == Enc("shdr", class, little,
                         [sh_name |-> W4(noffs[i]), sh_type |-> W4(secs[i].type), sh_flags |-> W8(secs[i].flags), sh_addr |-> W8(0),
                          sh_offset |-> W8(IF i = 1 THEN 0 ELSE offs[i]),
                          sh_size |-> W8(IF i = 1 THEN (IF opts.shnum_ext THEN nsec ELSE 0) ELSE Len(secs[i].data)),
                          sh_link |-> W4(IF i = 1 THEN (IF opts.shstrndx_ext THEN opts.shstrndx ELSE 0) ELSE secs[i].link),
                          sh_info |-> W4(IF i = 1 THEN (IF opts.phnum_ext THEN nseg ELSE 0) ELSE secs[i].info),
                          sh_addralign |-> W8(secs[i].align), sh_entsize |-> W8(secs[i].entsize)])
        phdrOf(k) == LET g == segs[k]
                         o == IF g.sec > 0 THEN offs[g.sec + 1] ELSE g.off
                         fs == IF g.sec > 0 THEN (IF "part" \in DOMAIN g /\ g.part > 0 THEN g.part ELSE Len(secs[g.sec + 1].data)) ELSE g.filesz
                     IN Enc("phdr", class, little,
                            [p_type |-> W4(g.type), p_flags |-> W4(g.flags), p_offset |-> W8(o), p_vaddr |-> W8(0), p_paddr |-> W8(0),
                             p_filesz |-> W8(fs), p_memsz |-> W8(fs + g.memsz), p_align |-> W8(g.align)])
        phtab == CatAll([k \in 1..nseg |-> phdrOf(k)], nseg)
        shtab == CatAll([i \in 1..nsec |-> shdrOf(i)], nsec)
        data == CatAll([i \in 1..nsec |-> IF secs[i].type = 8 THEN <<>> ELSE secs[i].data], nsec)
    IN Ident(class, little) \o tail \o phtab \o (IF opts.early THEN shtab \o data ELSE data \o shtab)

NullSec == [name |-> <<>>, type |-> 0, flags |-> 0, data |-> <<>>, link |-> 0, info |-> 0, align |-> 0, entsize |-> 0]
Sec(name, type, data) == [name |-> name, type |-> type, flags |-> 0, data |-> data, link |-> 0, info |-> 0, align |-> 1, entsize |-> 0]
DefaultOpts == [early |-> TRUE, shstrndx |-> 0, shnum_ext |-> FALSE, phnum_ext |-> FALSE, shstrndx_ext |-> FALSE, etype |-> 3, emachine |-> 62]
=============================================================================
