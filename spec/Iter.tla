-------------------------------- MODULE Iter --------------------------------
(* The Iterator interface as clients use it.  Every iterator the crate hands out (table entries,
   relocations, notes, version records) denotes a finite list of items; a client may consume it
   with any of the provided methods of the interface (nth, skip, step_by, count, last, fold, ...),
   not only with repeated next().  The abstract state of a partly consumed iterator is the number
   of items already passed, `pos`; the list itself is given by its length n and an accessor
   At(i), 1 <= i <= n, so that a 65 537-entry table never has to be materialised.

   A walk is a sequence of operations on ONE iterator object:
       <<"next", _>>, <<"nth", kW>>, <<"size_hint", _>>, <<"debug", _>>   (may continue)
       <<"rest", _>>, <<"fold", _>>, <<"collect", _>>, <<"skip", kW>>, <<"step_by", kW>>,
       <<"count", _>>, <<"last", _>>                                  (consume the iterator)
   and the observations are what each call returned.  What an iterator yields after it has
   returned None is left open by the interface, so the observations end at the first None; the
   remaining calls of the walk are still made, and must return (a panic there is a panic). *)
EXTENDS Words

Min2(a, b) == IF a < b THEN a ELSE b

\* does nth(k) hit an item when pos items have been passed?
NthHits(n, pos, kW) == LET k == Val(kW) IN k # Huge /\ k < n - pos

StepPos(n, pos, o) ==
    CASE o[1] = "next" -> Min2(pos + 1, n)
      [] o[1] \in {"size_hint", "debug"} -> pos
      [] o[1] = "nth"  -> IF NthHits(n, pos, o[2]) THEN pos + Val(o[2]) + 1 ELSE n
      [] OTHER         -> n

Opt(At(_), present, i) == IF present THEN [some |-> TRUE, f |-> At(i)] ELSE [some |-> FALSE]

ObsOf(At(_), n, pos, o) ==
    LET k == Val(o[2])
        rem == n - pos
    IN CASE o[1] = "next" -> Opt(At, pos < n, pos + 1)
         [] o[1] = "nth"  -> Opt(At, NthHits(n, pos, o[2]), pos + k + 1)
         [] o[1] = "debug" -> [dbg |-> TRUE]                 \* {:?} of the iterator: observed as "returned"
         [] o[1] = "size_hint" -> [hint |-> TRUE]            \* observed only as "returned" (its bounds are outside the properties)
         [] o[1] \in {"rest", "fold", "collect"} -> [items |-> [j \in 1..rem |-> At(pos + j)]]
         [] o[1] = "skip" -> LET m == IF k = Huge \/ k >= rem THEN 0 ELSE rem - k
                             IN [items |-> [j \in 1..m |-> At(n - m + j)]]
         [] o[1] = "step_by" ->                               \* k >= 1 (std panics on 0)
              LET cnt == IF rem = 0 THEN 0 ELSE IF k = Huge \/ k >= rem THEN 1 ELSE ((rem - 1) \div k) + 1
              IN [items |-> [j \in 1..cnt |-> At(pos + 1 + (j - 1) * k)]]
         [] o[1] = "count" -> [n |-> W8(rem)]
         [] o[1] = "last"  -> Opt(At, pos < n, n)

IsNone(r) == "some" \in DOMAIN r /\ ~r.some

\* the observations of a whole walk (cut at the first None)
WalkObs(At(_), n, ops) ==
    LET posF[i \in 1..(Len(ops) + 1)] == IF i = 1 THEN 0 ELSE StepPos(n, posF[i - 1], ops[i - 1])
        full == [i \in 1..Len(ops) |-> ObsOf(At, n, posF[i], ops[i])]
        nones == {i \in 1..Len(ops) : IsNone(full[i])}
        cut == IF nones = {} THEN Len(ops) ELSE CHOOSE i \in nones : \A j \in nones : i <= j
    IN SubSeq(full, 1, cut)

WalkOk(At(_), n, ops, obs) == obs = WalkObs(At, n, ops)
=============================================================================
