INIT Init
NEXT Next
INVARIANT Inv
CONSTANTS
 Classes = {32}
CHECK_DEADLOCK FALSE
