------------------------------ MODULE MC_Table ------------------------------
(* C09: the lazily parsed table as a state machine.  Init chooses a table (type, class, order,
   byte length incl. ragged tails, per-byte-distinct contents); each step performs one access
   (len / is_empty / get(i) / iter / into_iter) and appends it to the script.  The coherence
   invariant holds in every state; finished scripts are emitted with the predicted results. *)
EXTENDS Parse, Abi, Iter, Json
CONSTANTS ScriptLen, TableTypes

ES == {"LE", "AnyB"}
IsLittle(es) == es \in {"LE", "AnyL"}
Content(n) == [i \in 1..n |-> (i * 37 + 11) % 256]
Lens(es) == (0..(es + 1)) \cup {2 * es - 1, 2 * es, 2 * es + 1, 3 * es, 3 * es + es - 1}

MaxW == [i \in 1..8 |-> 255]
\* usize::MAX / entsize for the entry sizes in use (precomputed little-endian words)
MaxDiv(es) == CASE es = 2  -> <<255, 255, 255, 255, 255, 255, 255, 127>>
                [] es = 4  -> <<255, 255, 255, 255, 255, 255, 255, 63>>
                [] es = 8  -> <<255, 255, 255, 255, 255, 255, 255, 31>>
                [] es = 16 -> <<255, 255, 255, 255, 255, 255, 255, 15>>
                [] es = 32 -> <<255, 255, 255, 255, 255, 255, 255, 7>>
                [] es = 64 -> <<255, 255, 255, 255, 255, 255, 255, 3>>
                [] OTHER   -> <<86, 85, 85, 85, 85, 85, 85, 21>>       \* 12, 24, 40, 56: any huge index

VARIABLES t, script
vars == <<t, script>>

Init == /\ t \in { [ty |-> ty, class |-> cl, es |-> es, n |-> n] :
                     ty \in TableTypes, cl \in {32, 64}, es \in ES, n \in 0..260 }
        /\ t.n \in Lens(SizeFor(t.ty, t.class))
        /\ script = <<>>

Buf == Content(t.n)
N == TblLen(t.ty, t.class, Buf)
\* ... and the index after it, whose byte offset index * entsize wraps around 2^64 to a small one
Idx == {W8(i) : i \in 0..(N + 2)} \cup {MaxW, MaxDiv(SizeFor(t.ty, t.class)), AddW(MaxDiv(SizeFor(t.ty, t.class)), W8(1))[1]}
Ops == {<<"len">>, <<"empty">>, <<"iter">>, <<"into_iter">>} \cup {<<"get", i>> : i \in Idx}

\* walks (Iter.tla): the provided Iterator methods on one iterator object of the table
Z8 == W8(0)
Prefixes == { <<>>, << <<"next", Z8>> >>, << <<"next", Z8>>, <<"next", Z8>> >>, << <<"nth", W8(0)>> >>,
              << <<"nth", W8(1)>> >>, << <<"nth", W8(2)>> >>, << <<"next", Z8>>, <<"nth", W8(1)>> >>,
              << <<"nth", W8(1)>>, <<"next", Z8>> >>, << <<"nth", W8(1)>>, <<"nth", W8(0)>> >>,
              << <<"size_hint", Z8>>, <<"nth", W8(1)>>, <<"size_hint", Z8>> >>,
              << <<"nth", MaxW>>, <<"size_hint", Z8>> >>, << <<"nth", W8(1)>>, <<"debug", Z8>> >>,
              << <<"nth", MaxW>>, <<"debug", Z8>> >> }             \* (calls after None must still return)
Finals == { <<"rest", Z8>>, <<"fold", Z8>>, <<"collect", Z8>>, <<"count", Z8>>, <<"last", Z8>>, <<"nth", MaxW>> }
          \cup { <<"skip", k>> : k \in {W8(0), W8(1), W8(2), MaxW} }
          \cup { <<"step_by", k>> : k \in {W8(1), W8(2), W8(3), MaxW} }
WalkOps == { <<"walk", p \o <<f>>, "iter">> : p \in Prefixes, f \in Finals }
           \cup { <<"walk", p \o <<f>>, "into_iter">> : p \in {<<>>, << <<"nth", W8(1)>> >>}, f \in Finals }
IsWalk(sc) == Len(sc) = 1 /\ sc[1][1] = "walk"

Step(o) == /\ Len(script) < ScriptLen /\ ~IsWalk(script)
           /\ script' = Append(script, o)
           /\ UNCHANGED t
Next == \/ \E o \in Ops : Step(o)
        \/ script = <<>> /\ \E o \in WalkOps : script' = <<o>> /\ UNCHANGED t

Get(iW) == TblGet(t.ty, t.class, IsLittle(t.es), Buf, iW)
Items == IterAll(t.ty, t.class, IsLittle(t.es), Buf)

\* C09
Prop_C09 ==
    /\ N = t.n \div CSize(t.ty, t.class)                             \* number of whole entries
    /\ \A iW \in Idx : Get(iW).ok <=> (Val(iW) # Huge /\ Val(iW) < N)
    /\ Len(Items) = N
    /\ \A i \in 1..N : Items[i] = Get(W8(i - 1)).f
    \* each entry is the decoding of its own bytes
    /\ \A i \in 1..N : Get(W8(i - 1)).f =
           ParseNat(t.ty, t.class, IsLittle(t.es), SubSeq(Buf, (i - 1) * SizeFor(t.ty, t.class) + 1, i * SizeFor(t.ty, t.class)), 0).f

ExpOf(o) ==
    CASE o[1] = "len" -> [out |-> "ok", n |-> W8(N)]
      [] o[1] = "empty" -> [out |-> "ok", b |-> (N = 0)]
      [] o[1] = "get" -> (LET r == Get(o[2]) IN IF r.ok THEN [out |-> "ok", f |-> Pub(r.f)] ELSE [out |-> "err"])
      [] o[1] \in {"iter", "into_iter"} -> [out |-> "ok", n |-> N, items |-> [i \in 1..N |-> Pub(Items[i])]]
      [] o[1] = "walk" -> (LET At(i) == Pub(Items[i]) IN [out |-> "ok", obs |-> WalkObs(At, N, o[2])])

\* the walk model agrees with plain iteration: draining after any prefix yields the remaining items,
\* and count() says how many those are
Prop_Walk ==
    \A p \in Prefixes :
        LET At(i) == Items[i]
            a == WalkObs(At, N, p \o << <<"rest", Z8>> >>)
            c == WalkObs(At, N, p \o << <<"count", Z8>> >>)
        IN Len(a) = Len(p) + 1 =>                       \* (the prefix did not run off the end)
             /\ c[Len(c)].n = W8(Len(a[Len(a)].items))
             /\ a[Len(a)].items = SubSeq(Items, N - Len(a[Len(a)].items) + 1, N)

Emit == IF Len(script) = ScriptLen \/ IsWalk(script)
        THEN PrintT(ToJson([op |-> "tbl", ty |-> t.ty, class |-> t.class, es |-> t.es, buf |-> Buf,
                            script |-> script, exp |-> [i \in 1..Len(script) |-> ExpOf(script[i])]]))
        ELSE TRUE
Inv == (script = <<>> => Prop_C09 /\ Prop_Walk) /\ Emit      \* the properties depend on the table only
=============================================================================
