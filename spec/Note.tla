-------------------------------- MODULE Note --------------------------------
(* ELF notes (note.rs).  Operational model of Note::parse_at / NoteIterator::next / name_str and the
   declarative layout statement of C14. *)
EXTENDS Parse, StrTab

GNU == <<71, 78, 85, 0>>       \* "GNU\0"
NT_GNU_ABI_TAG == 1
NT_GNU_BUILD_ID == 3

\* offset rounded up as the code does:  if off % align > 0 { off += align - off % align }
PadTo(off, align) == IF off % align > 0 THEN off + (align - (off % align)) ELSE off

\* ---- operational: one Note::parse_at from natural cursor `off` (note.rs:53-127) ------------
\* result: [ok |-> FALSE] or [ok |-> TRUE, note |-> ..., off |-> cursor after]
NoteParse(little, alignW, buf, off) ==
    IF IsZeroW(alignW) THEN [ok |-> FALSE]                               \* UnexpectedAlignment
    ELSE LET h == ParseNat("nhdr", 32, little, buf, off)                 \* always the 32-bit header
         IN IF ~h.ok THEN [ok |-> FALSE]
            ELSE LET align == Val(alignW)
                     namesz == Val(h.f["n_namesz"])
                     descsz == Val(h.f["n_descsz"])
                     nameStart == h.off
                 IN IF namesz = Huge \/ namesz > Len(buf) \/ nameStart + namesz > Len(buf) THEN [ok |-> FALSE]
                    \* the cursor (>= 12) is padded up to the alignment: with an alignment beyond any buffer the descriptor
                    \* cannot fit (also keeps the arithmetic inside TLC's 32-bit integers)
                    ELSE IF align = Huge \/ align > 16777216 THEN [ok |-> FALSE]
                    ELSE LET nameEnd == nameStart + namesz
                             descStart == PadTo(nameEnd, align)
                         IN IF descsz = Huge \/ descsz > Len(buf) \/ descStart > Len(buf) \/ descStart + descsz > Len(buf) THEN [ok |-> FALSE]
                            ELSE LET descEnd == descStart + descsz
                                     after == PadTo(descEnd, align)
                                     name == SubSeq(buf, nameStart + 1, nameEnd)
                                     ntype == h.f["n_type"]
                                 IN IF name = GNU /\ Val(ntype) = NT_GNU_ABI_TAG
                                    THEN LET t == ParseNat("abitag", 32, little, SubSeq(buf, descStart + 1, descEnd), 0)
                                         IN IF t.ok THEN [ok |-> TRUE, off |-> after, note |-> [k |-> "abitag", f |-> t.f]]
                                            ELSE [ok |-> FALSE]
                                    ELSE IF name = GNU /\ Val(ntype) = NT_GNU_BUILD_ID
                                    THEN [ok |-> TRUE, off |-> after,
                                          note |-> [k |-> "buildid", desc |-> RangeJ(descStart, descsz)]]
                                    ELSE [ok |-> TRUE, off |-> after,
                                          note |-> [k |-> "any", n_type |-> ntype, name |-> RangeJ(nameStart, namesz),
                                                    desc |-> RangeJ(descStart, descsz),
                                                    name_str |-> LET RECURSIVE Trim(_)
                                                                     Trim(n) == IF n > 0 /\ name[n] = 0 THEN Trim(n - 1) ELSE n
                                                                 IN IF IsUtf8(name)
                                                                    THEN [out |-> "ok", s |-> RangeJ(nameStart, Trim(namesz))]
                                                                    ELSE [out |-> "err"]]]

\* NoteIterator::next (note.rs:208-224)
NoteNext(little, alignW, buf, off) ==
    IF Len(buf) = 0 THEN [ok |-> FALSE] ELSE NoteParse(little, alignW, buf, off)

RECURSIVE NotesFrom(_, _, _, _, _)
NotesFrom(little, alignW, buf, off, acc) ==
    LET r == NoteNext(little, alignW, buf, off)
    IN IF r.ok THEN NotesFrom(little, alignW, buf, r.off, Append(acc, r.note)) ELSE acc
Notes(little, alignW, buf) == NotesFrom(little, alignW, buf, 0, <<>>)

\* ---- declarative C14: the record layout -------------------------------------------------
\* records back to back from offset 0: 12-byte header of three 32-bit words, name, padding to the
\* alignment, descriptor, padding to the alignment.  Returns the sequence of
\* [ntype, nameStart, namesz, descStart, descsz] of the records that fit.
RoundUp(x, a) == ((x + a - 1) \div a) * a
Word32(buf, pos, little) == LET raw == SubSeq(buf, pos + 1, pos + 4) IN IF little THEN raw ELSE Rev(raw)
RECURSIVE Layout(_, _, _, _, _)
Layout(little, align, buf, pos, acc) ==
    IF pos + 12 > Len(buf) THEN acc
    ELSE LET namesz == Val(Word32(buf, pos, little))
             descsz == Val(Word32(buf, pos + 4, little))
             ntype  == Word32(buf, pos + 8, little)
         IN IF namesz = Huge \/ namesz > Len(buf) \/ pos + 12 + namesz > Len(buf) THEN acc
            ELSE LET descStart == RoundUp(pos + 12 + namesz, align)
                 IN IF descsz = Huge \/ descsz > Len(buf) \/ descStart > Len(buf) \/ descStart + descsz > Len(buf) THEN acc
                    ELSE Layout(little, align, buf, RoundUp(descStart + descsz, align),
                                Append(acc, [ntype |-> ntype, nameStart |-> pos + 12, namesz |-> namesz,
                                             descStart |-> descStart, descsz |-> descsz]))

\* the yielded notes are exactly the laid-out records (scope of C14: ABI-tag notes carry their
\* 16-byte descriptor; alignments below 2^31)
IsAbiTagRec(buf, r) == SubSeq(buf, r.nameStart + 1, r.nameStart + r.namesz) = GNU /\ Val(r.ntype) = NT_GNU_ABI_TAG
InScopeC14(little, alignW, buf) ==
    /\ Val(alignW) # Huge /\ Val(alignW) > 0 /\ Val(alignW) <= 16777216
    /\ \A i \in 1..Len(Layout(little, Val(alignW), buf, 0, <<>>)) :
          LET r == Layout(little, Val(alignW), buf, 0, <<>>)[i] IN IsAbiTagRec(buf, r) => r.descsz >= 16
DeclNotesOk(little, alignW, buf, notes) ==
    IF IsZeroW(alignW) THEN notes = <<>>
    ELSE InScopeC14(little, alignW, buf) =>
         LET lay == Layout(little, Val(alignW), buf, 0, <<>>)
         IN /\ Len(notes) = Len(lay)
            /\ \A i \in 1..Len(lay) :
                 LET r == lay[i] n == notes[i]
                 IN CASE n.k = "any" -> /\ n.n_type = ZExt(r.ntype, 8)
                                        /\ n.name = RangeJ(r.nameStart, r.namesz)
                                        /\ n.desc = RangeJ(r.descStart, r.descsz)
                      [] n.k = "buildid" -> /\ n.desc = RangeJ(r.descStart, r.descsz)
                                            /\ Val(r.ntype) = NT_GNU_BUILD_ID
                                            /\ SubSeq(buf, r.nameStart + 1, r.nameStart + r.namesz) = GNU
                      [] n.k = "abitag" -> /\ IsAbiTagRec(buf, r)
                                           /\ \A j \in 1..4 :
                                                n.f[<<"os", "major", "minor", "subminor">>[j]] =
                                                   Word32(buf, r.descStart + 4 * (j - 1), little)
=============================================================================
