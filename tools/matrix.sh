#!/bin/sh
# usage: matrix.sh <copy-id> <seed> <patch:PROP> ...   -- runs each patch against its property's quick check with the given
# seed, in a private copy of /verif (so that several matrices can run in parallel). Appends to /verif/work/matrix.<id>.log
id=$1; seed=$2; shift 2
cp=/tmp/vm$id
rm -rf $cp; mkdir -p $cp
rsync -a --exclude work --exclude replay --exclude harness/target --exclude .git /verif/ $cp/
mkdir -p $cp/work $cp/replay
for spec in "$@"; do
  patch=${spec%%:*}; prop=${spec##*:}
  wt=/tmp/elfmx.$id.$$
  git -C /repo worktree add -q --detach "$wt" HEAD || continue
  if git -C "$wt" apply "$patch"; then
    VERIF_REPO="$wt" VERIF_SEED=$seed nice -n 5 $cp/check "$prop" quick > $cp/work/last.log 2>&1; rc=$?
    echo "seed=$seed prop=$prop exit=$rc patch=$patch" >> /verif/work/matrix.$id.log
  else
    echo "seed=$seed prop=$prop exit=PATCHFAIL patch=$patch" >> /verif/work/matrix.$id.log
  fi
  git -C /repo worktree remove --force "$wt"
done
rm -rf $cp
echo "DONE $id" >> /verif/work/matrix.$id.log
