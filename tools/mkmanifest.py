#!/usr/bin/env python3
"""Regenerate MANIFEST.json from tools/recipes.py (one check per property)."""
import json, os, sys
sys.path.insert(0, os.path.dirname(os.path.abspath(__file__)))
from recipes import RECIPES

LEVEL_TEXT = {
 "C01": ("exploration", "No-panic is observational: the harness (overflow checks + debug assertions on, panics caught, aborts/timeouts recorded) drives every slice-parser entry point with spec-derived boundary inputs; TLC's trace spec has no action for a panic/died outcome. Exploration is the honest level: a spec cannot derive absence of panics in code it does not execute.", "4 C01"),
 "C02": ("model_checking", "TLC checks Decode(code side) o Encode(ABI side) = widen(values) on every structure x class x order x boundary value, emits the cases, the harness replays all of them; random bytes are decoded by crate and spec and compared by TLC.", "4 C02"),
 "C03": ("model_checking", "Trace validation: every returned slice is projected to its position in the caller's buffer; TLC recomputes the header-designated range from the file bytes (ElfFile.tla/FileSem.tla) and rejects any other range, a clamped range, a copy, or an ok/err flip.", "4 C03"),
 "C04": ("model_checking", "Exhaustive small scope model-checked in TLC against the declarative byte-order statement, all cases replayed on the crate; random/boundary reads trace-validated.", "4 C04"),
 "C05": ("model_checking", "Trace validation of open/open_stream and the entsize-checked accessors on generated objects incl. extended numbering across 0xff00/0xffff on sparse multi-MiB tables; TLC recomputes table location, count and entries.", "4 C05"),
 "C06": ("model_checking", "Allocation clause: every recorded slice-parser event carries the measured allocation count and the trace spec demands 0; feature clause: 8 feature subsets + API probes + core-only build judged against Features.tla.", "4 C06"),
 "C07": ("model_checking", "Trace validation of ElfStream sessions over scripted readers against the stream semantics, plus the stream/slice relation evaluated by TLC for every query.", "4 C07"),
 "C08": ("model_checking", "Trace validation with measured largest allocation and recorded reads per call: TLC checks the allocation bound and that every byte read lies in a spec-computed designated range.", "4 C08"),
 "C09": ("model_checking", "The lazy table is a TLC state machine (one access per step); coherence invariant in every state; all scripts of length 2 replayed on one table object; random scripts trace-validated.", "4 C09"),
 "C10": ("model_checking", "Exhaustive ident space model-checked against the declarative 'one defect -> that error with that payload' statement, replayed; opens with every spec trace-validated.", "4 C10"),
 "C11": ("model_checking", "Trace validation of GNU-hash lookups: TLC checks the table with the format's own well-formedness predicate, then completeness vs linear scan, soundness always, and equality with the operational model; hash function vs djb2 reference.", "4 C11"),
 "C12": ("model_checking", "As C11 for SysV tables and the gABI elf_hash text.", "4 C12"),
 "C13": ("model_checking", "Trace validation of version queries against the operational model and the generator's ground-truth model (declarative ReqOf/DefOf).", "4 C13"),
 "C14": ("model_checking", "Trace validation of note iteration against the operational model and the declarative record layout.", "4 C14"),
 "C15": ("model_checking", "Exhaustive tables <= 5 (7) bytes x all offsets model-checked against the declarative 'longest NUL-free run' statement and replayed; random tables trace-validated.", "4 C15"),
 "C16": ("model_checking", "Adversarial link structures trace-validated with the step bounds (items <= bytes, <= declared count) as part of the trace spec; CPU-time watchdog records hangs.", "4 C16"),
 "C17": ("fault_enumeration", "One hard fault at sampled (thorough: every) I/O call index x kind per generated object and accessor script, then the script again on the same stream; TLC's StreamAbs demands error on the faulted call and error-or-fault-free-answer afterwards.", "4 C17"),
 "C18": ("model_checking", "Trace validation on prefixes/extensions with both files in the trace: TLC checks conformance on the prefix and the PrefixRel relation between the spec's answers on prefix and whole.", "4 C18"),
 "C20": ("model_checking", "Trace validation of find_common_data, by-name lookup and typed views against semantics that relate them to the targeted accessors.", "4 C20"),
}

def main():
    here = os.path.dirname(os.path.dirname(os.path.abspath(__file__)))
    m = {
        "version": 1,
        "setup_cmd": "cd /verif && ./setup.sh",
        "hooks": {"guard": "elf_verif",
                  "enable": "no source hooks: all observation points are public API, the global allocator and the caller-supplied reader; the harness is built with --cfg elf_verif (reserved)",
                  "baseline_off_cmd": "cd /repo && cargo test --workspace --no-fail-fast --offline",
                  "source_commits": [], "add_only": True},
        "engines": [{"name": "tlc-trace-and-replay", "path": "/verif/check", "serves_properties": sorted(RECIPES.keys()),
                     "kind_free_text": "TLA+ specification (spec/*.tla) checked by TLC; direction A: TLC-generated cases replayed on the crate; direction B: recorded traces validated by TLC"}],
        "checks": [], "not_applicable": [],
        "notes": "See DESIGN.md. ./check <ID> quick|thorough [--replay PATH]; exit 2 = tool error (never a verdict).",
    }
    for pid in sorted(RECIPES.keys()):
        rc = RECIPES[pid]
        cat, text, ref = LEVEL_TEXT.get(pid, (rc.get("level", "model_checking"), rc.get("rule", ""), "4"))
        m["checks"].append({
            "property_id": pid,
            "quick_cmd": "cd /verif && ./check %s quick" % pid,
            "thorough_cmd": "cd /verif && ./check %s thorough" % pid,
            "evidence_file": "/verif/evidence/%s.json" % pid,
            "replay_cmd_template": "cd /verif && ./check %s --replay {path}" % pid,
            "engine": "tlc-trace-and-replay",
            "level_claimed": {"category": cat, "text": text, "design_ref": "DESIGN.md section " + ref},
            "level_note": "; ".join(rc.get("assumptions", [])),
            "technique": rc.get("technique", "explicit TLA+ specification + TLC: bounded model checking with case replay and/or trace validation of recorded executions"),
        })
    allp = ["C%02d" % i for i in range(1, 21)]
    for p in allp:
        if p not in RECIPES:
            m["not_applicable"].append({"property_id": p, "reason": "check not built yet"})
    json.dump(m, open(os.path.join(here, "MANIFEST.json"), "w"), indent=1)
    print("checks:", len(m["checks"]), "not_applicable:", len(m["not_applicable"]))

main()
