"""C06, feature clause: build the crate for every subset of its cargo features, probe the API surface,
and build the no-default-features configuration against `core` only.  Every outcome becomes a trace
event judged by TLC against spec/Features.tla (through spec/Trace.tla)."""
import itertools
import json
import os
import shutil
import subprocess

import vlib

PROBES = {
    "p_stream": "use elf::ElfStream;\nfn main() { let _ = core::mem::size_of::<ElfStream<elf::endian::AnyEndian, std::fs::File>>(); }\n",
    "p_to_str": "fn main() { let _ = elf::to_str::e_type_to_str(2); }\n",
    "p_to_string": "fn main() { let _ = elf::to_str::e_type_to_string(2); }\n",
    "p_core_api": "fn main() { let _ = elf::ElfBytes::<elf::endian::AnyEndian>::minimal_parse(&[]); let _ = elf::hash::gnu_hash(b\"x\"); }\n",
}


def run(cmd, cwd, timeout=900):
    env = dict(os.environ, CARGO_NET_OFFLINE="true", RUST_BACKTRACE="0")
    p = subprocess.run(cmd, cwd=cwd, env=env, stdout=subprocess.PIPE, stderr=subprocess.STDOUT, text=True, timeout=timeout)
    return p.returncode, p.stdout


def feature_events(tier):
    feats = ["alloc", "std", "to_str"]
    subsets = [list(c) for k in range(4) for c in itertools.combinations(feats, k)]
    root = os.path.join(vlib.WORK, "featprobe")
    shutil.rmtree(root, ignore_errors=True)
    os.makedirs(os.path.join(root, "examples"))
    os.makedirs(os.path.join(root, "src"))
    open(os.path.join(root, "src", "lib.rs"), "w").write("")
    for n, src in PROBES.items():
        open(os.path.join(root, "examples", n + ".rs"), "w").write(src)
    events = [{"op": "session", "family": "features"}]
    tdir = os.path.join(vlib.WORK, "feat_target")
    for fs in subsets:
        toml = ('[package]\nname = "featprobe"\nversion = "0.0.0"\nedition = "2021"\n[workspace]\n[dependencies]\n'
                'elf = { path = "%s", default-features = false, features = %s }\n' % (vlib.REPO, json.dumps(fs)))
        open(os.path.join(root, "Cargo.toml"), "w").write(toml)
        ev = {"op": "feature", "set": sorted(fs)}
        rc, out = run(["cargo", "check", "--offline", "--lib", "--no-default-features", "--features", ",".join(fs),
                       "--target-dir", tdir], vlib.REPO)
        ev["builds"] = rc == 0
        if rc != 0:
            ev["log"] = out[-600:]
        for n in PROBES:
            rc2, out2 = run(["cargo", "check", "--offline", "--example", n, "--target-dir", tdir], root)
            ev[n] = rc2 == 0
        events.append(ev)
    # no default features: must build with only `core` available (no std, no alloc in the sysroot)
    rc, out = run(["cargo", "+nightly", "build", "--offline", "-Zbuild-std=core", "--target", "x86_64-unknown-none",
                   "--no-default-features", "--lib", "--target-dir", os.path.join(vlib.WORK, "feat_target_core")], vlib.REPO)
    tool_problem = rc != 0 and ("error[E" not in out and "can't find crate" not in out and "unresolved" not in out)
    if tool_problem:
        raise vlib.ToolError("core-only build could not run: " + out[-800:])
    events.append({"op": "feature_core", "builds": rc == 0, "log": "" if rc == 0 else out[-800:]})
    return events


def feature_check(prop, tier, seed, cov, violations):
    evs = feature_events(tier)
    path = os.path.join(vlib.WORK, "%s.features.trace.ndjson" % prop)
    with open(path, "w") as f:
        for e in evs:
            f.write(json.dumps(e) + "\n")
    r = vlib.validate_trace(path)
    if not r["consumed"]:
        raise vlib.ToolError("feature trace not consumed: " + r.get("tail", ""))
    cov["feature_sets_built"] = len(evs) - 2
    cov["events_validated"] += r["events"]
    cov["states"] += r["states"]
    cov["transitions"] += r["transitions"]
    cov["traces_validated_against_impl"] += 1
    cov["samples"].append(evs[1])
    for (ln, why, tag) in r["mismatches"]:
        violations.append(("features-%d" % ln, [evs[0], evs[ln - 1]], {"reason": why, "event": evs[ln - 1]}))


def abi_reference_coverage(prop, tier, seed, cov, violations):
    """C19 bookkeeping: which exported constants the reference table knows (the others are unchecked, said so)."""
    import re
    ref = set(re.findall(r"^  (\w+) \|->", open(os.path.join(vlib.SPEC, "AbiRef.tla")).read(), re.M))
    up = {n.upper() for n in ref}
    names = re.findall(r"^pub const (\w+): (?:u8|u16|u32|u64|i64|i32|usize) =", open(os.path.join(vlib.REPO, "src", "abi.rs")).read(), re.M)
    unchecked = [n for n in names if n not in ref and n.upper() not in up]
    cov["constants_exported"] = len(names)
    cov["constants_checked_against_reference"] = len(names) - len(unchecked)
    cov["constants_not_in_reference"] = unchecked[:100]
