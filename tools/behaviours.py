"""Direction A for the stream state machine: behaviours explored by TLC on spec/Stream.tla are turned into
sessions for the real ElfStream (a minimal valid ELF header followed by the model's payload cells; each model
call Load(s,e) becomes section_data of a caller-made header designating [64+s, 64+e)); the environment's choices
(chunk sizes, Interrupted, faults) are replayed by the scripted reader; the recorded trace is then judged by TLC
(StreamAbs in Trace.tla), so the verdict is the property, not the I/O pattern."""
import json
import os

import vlib


def w(v, n):
    return [(v >> (8 * i)) & 0xff for i in range(n)]


def mini_elf(payload):
    h = [0x7f, 0x45, 0x4c, 0x46, 2, 1, 1, 0] + [0] * 8
    h += w(3, 2) + w(62, 2) + w(1, 4) + w(0, 8) + w(0, 8) + w(0, 8) + w(0, 4) + w(64, 2) + w(0, 2) + w(0, 2) + w(0, 2) + w(0, 2) + w(0, 2)
    assert len(h) == 64
    return h + list(payload)


def shdr(off, size):
    return {"sh_name": w(0, 4), "sh_type": w(1, 4), "sh_flags": w(0, 8), "sh_addr": w(0, 8), "sh_offset": w(off, 8),
            "sh_size": w(size, 8), "sh_link": w(0, 4), "sh_info": w(0, 4), "sh_addralign": w(1, 8), "sh_entsize": w(0, 8)}


def stream_sessions(cases_path, ops_path):
    n = 0
    with open(ops_path, "w") as out:
        for line in vlib.read_lines(cases_path):
            b = json.loads(line)
            if any("r2" in c for c in b["calls"]):
                continue        # two-range accessors are explored at model level only (symbol_table needs real tables)
            out.write(json.dumps({"op": "session", "family": "mc-stream", "behaviour": n}) + "\n")
            out.write(json.dumps({"op": "buf", "slot": "file", "bytes": mini_elf(b["file"])}) + "\n")
            out.write(json.dumps({"op": "sopen", "es": "Any", "fileslot": "file",
                                  "reader": {"chunk": "full", "seed": 1, "faults": []}}) + "\n")
            for c in b["calls"]:
                s, e = c["r"]
                out.write(json.dumps({"op": "sq", "name": "section_data", "shdr": shdr(64 + s, e - s), "steps": c["steps"],
                                      "model": {"ok": c.get("ok"), "faulted": c.get("faulted")}}) + "\n")
            n += 1
    return n


def run_stream_behaviours(prop, tier, seed, cov, violations, module, cfg, reasons, tags):
    cases = os.path.join(vlib.WORK, "%s.%s.behaviours.ndjson" % (prop, cfg))
    info = vlib.run_mc(module, cfg, workers=8, cases_out=cases)
    vlib.require_mc_ok(info)
    cov["states"] += info["distinct_states"]
    cov["transitions"] += info["states_generated"]
    entry = {k: info[k] for k in ("module", "cfg", "distinct_states", "states_generated", "cases", "wall_s")}
    ops = os.path.join(vlib.WORK, "%s.%s.ops.ndjson" % (prop, cfg))
    nb = stream_sessions(cases, ops)
    # shard the sessions over several validators
    lines = vlib.read_lines(ops)
    starts = [i for i, l in enumerate(lines) if '"op": "session"' in l]
    nshard = max(1, min(10, nb // 150))
    per = (len(starts) + nshard - 1) // nshard
    shards = []
    for k in range(nshard):
        a = starts[k * per] if k * per < len(starts) else None
        if a is None:
            break
        bnd = starts[(k + 1) * per] if (k + 1) * per < len(starts) else len(lines)
        p = os.path.join(vlib.WORK, "%s.%s.ops.%d.ndjson" % (prop, cfg, k))
        open(p, "w").write("\n".join(lines[a:bnd]) + "\n")
        shards.append(p)

    def do(p):
        ev = p.replace(".ops.", ".ev.")
        vlib.harness(["exec", p, ev])
        r = vlib.validate_trace(ev)
        r["died"] = os.path.getsize(ev + ".died") > 0
        return r

    drift = 0
    model_disagree = 0
    for r in vlib.pmap(do, shards, workers=10):
        if not r["consumed"]:
            raise vlib.ToolError("validation of replayed behaviours did not complete: " + r.get("tail", ""))
        cov["events_validated"] += r["events"]
        cov["states"] += r["states"]
        cov["transitions"] += r["transitions"]
        evl = vlib.read_lines(r["path"])
        for l in evl:
            if '"drift":true' in l:
                drift += 1
            if '"op":"sq"' in l:
                e = json.loads(l)
                if e.get("model", {}).get("ok") is not None and (e["res"].get("out") == "ok") != e["model"]["ok"]:
                    model_disagree += 1
        bad = [m for m in r["mismatches"] if m[1] in reasons and (tags is None or m[2] in tags)]
        for k, (ln, why, _t) in enumerate(bad[:2]):
            ops_ = vlib.events_to_ops(vlib.session_around(evl, ln))
            violations.append(("A-%s-%d" % (cfg, ln), ops_, {"rejected_line": ln, "reason": why, "event": json.loads(evl[ln - 1])}))
    cov["cases_replayed"] += nb
    cov["traces_validated_against_impl"] += nb
    entry.update({"behaviours_replayed": nb, "drift_events": drift, "outcome_differs_from_StreamImpl": model_disagree})
    cov["mc_runs"].append(entry)
    if nb:
        cov["samples"].append(json.loads(vlib.read_lines(cases)[nb // 2]))


def stream_hook(module, cfg_by_tier):
    def fn(prop, tier, seed, cov, violations):
        from recipes import RECIPES
        rc = RECIPES[prop]
        run_stream_behaviours(prop, tier, seed, cov, violations, module, cfg_by_tier[tier], rc.get("reasons"), rc.get("tags"))
    return fn


def apalache_induction(prop, tier, seed, cov, violations):
    """Thorough tier only: inductive proof (Apalache) that CacheSound /\\ ResultOk hold in every reachable state of the
    cache design, for any number of calls / faults / chunkings and any contents of a 5-cell stream; plus its negative
    control (insert-before-read must break the induction).  A statement about the design (spec/apalache/StreamInd.tla);
    conformance of the code to the design is what the replayed behaviours and validated traces check."""
    import subprocess, shutil, time
    if tier != "thorough":
        return
    d = os.path.join(vlib.SPEC, "apalache")
    out = os.path.join(vlib.WORK, "apalache-out")
    res = {}
    for name, args, want in (("base", ["--init=Init", "--inv=IndInv", "--length=0", "StreamInd.tla"], "NoError"),
                             ("step", ["--init=IndInit", "--inv=IndInv", "--length=1", "StreamInd.tla"], "NoError"),
                             ("negative_control_step", ["--init=IndInit", "--inv=IndInv", "--length=1", "StreamIndNeg.tla"], "Error")):
        t0 = time.time()
        try:
            p = subprocess.run(["apalache-mc", "check", "--out-dir=" + out] + args, cwd=d, stdout=subprocess.PIPE,
                               stderr=subprocess.STDOUT, text=True, timeout=3000)
            m = [l for l in p.stdout.split("\n") if "The outcome is:" in l]
            outcome = m[-1].split("The outcome is:")[1].split()[0] if m else "?"
        except subprocess.TimeoutExpired:
            outcome = "timeout"
        res[name] = {"outcome": outcome, "wall_s": round(time.time() - t0, 1)}
        if outcome != want:
            shutil.rmtree(out, ignore_errors=True)
            raise vlib.ToolError("Apalache %s: outcome %s, expected %s" % (name, outcome, want))
    shutil.rmtree(out, ignore_errors=True)
    cov["apalache_inductive_invariant"] = {"module": "spec/apalache/StreamInd.tla", "invariant": "IndInv => CacheSound /\\ ResultOk",
                                           "obligations": res}


def apalache_iter_induction(prop, tier, seed, cov, violations):
    """Thorough tier only: inductive proof (Apalache) for the iterator model of spec/Iter.tla - for any number of
    next / nth(k) / size_hint calls on one iterator over a list of any length 0..12 and any k, the position stays in
    0..n, items are yielded in order and none twice, and a consuming call sees exactly the items after the position;
    plus its negative control (an nth that jumps to the absolute k-th item must break the induction)."""
    import subprocess, shutil, time
    if tier != "thorough":
        return
    d = os.path.join(vlib.SPEC, "apalache")
    out = os.path.join(vlib.WORK, "apalache-out-iter")
    res = {}
    for name, args, want in (("base", ["--init=Init", "--inv=IndInv", "--length=0", "IterInd.tla"], "NoError"),
                             ("step", ["--init=IndInit", "--inv=IndInv", "--length=1", "IterInd.tla"], "NoError"),
                             ("safety", ["--init=IndInit", "--inv=Safety", "--length=0", "IterInd.tla"], "NoError"),
                             ("negative_control_step", ["--init=IndInit", "--inv=IndInv", "--length=1", "IterIndNeg.tla"], "Error")):
        t0 = time.time()
        try:
            p = subprocess.run(["apalache-mc", "check", "--out-dir=" + out] + args, cwd=d, stdout=subprocess.PIPE,
                               stderr=subprocess.STDOUT, text=True, timeout=1200)
            m = [l for l in p.stdout.split("\n") if "The outcome is:" in l]
            outcome = m[-1].split("The outcome is:")[1].split()[0] if m else "?"
        except subprocess.TimeoutExpired:
            outcome = "timeout"
        res[name] = {"outcome": outcome, "wall_s": round(time.time() - t0, 1)}
        if outcome != want:
            shutil.rmtree(out, ignore_errors=True)
            raise vlib.ToolError("Apalache IterInd %s: outcome %s, expected %s" % (name, outcome, want))
    shutil.rmtree(out, ignore_errors=True)
    cov["apalache_inductive_invariant"] = {"module": "spec/apalache/IterInd.tla", "invariant": "IndInv => Safety (position bound, order, no repetition)",
                                           "obligations": res}
