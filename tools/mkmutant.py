#!/usr/bin/env python3
"""mkmutant.py <name> <file> <old> <new> [<file> <old> <new> ...]
Creates /verif/mutants/<name>.diff by applying exact string replacements to a scratch worktree of /repo."""
import subprocess, sys, os, tempfile, shutil
name = sys.argv[1]
trip = sys.argv[2:]
wt = tempfile.mkdtemp(prefix="elfmk.", dir="/tmp")
os.rmdir(wt)
subprocess.check_call(["git", "-C", "/repo", "worktree", "add", "-q", "--detach", wt, "HEAD"])
try:
    for i in range(0, len(trip), 3):
        f, old, new = trip[i], trip[i + 1], trip[i + 2]
        p = os.path.join(wt, f)
        s = open(p).read()
        if s.count(old) < 1:
            sys.exit("old text not found in %s" % f)
        s = s.replace(old, new, 1)
        open(p, "w").write(s)
    d = subprocess.check_output(["git", "-C", wt, "diff"], text=True)
    out = os.path.join("/verif/mutants", name + ".diff")
    open(out, "w").write(d)
    print(out, len(d.splitlines()), "lines")
finally:
    subprocess.call(["git", "-C", "/repo", "worktree", "remove", "--force", wt])
