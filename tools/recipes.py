"""Per-property recipes: which bounded instances are model-checked and replayed (direction A),
which generator families are recorded and trace-validated (direction B), and which rejection
reasons count for the property."""

COMMON_ASSUME = [
    "host: x86_64 little-endian, usize = 64 bit (reported by the harness, asserted by the spec)",
    "the operational TLA+ model (spec/Parse.tla ...) is my transcription of the code; its fidelity is what conformance tests",
    "TLC, the JSON community module and serde_json are trusted",
]

RECIPES = {
    "C04": {
        "level": "model_checking",
        "mc": {"quick": [("MC_ReadInt", "MC_ReadInt_q")], "thorough": [("MC_ReadInt", "MC_ReadInt_t")]},
        "families": {"quick": [("readint", 3000, 4)], "thorough": [("readint", 20000, 14)]},
        "reasons": ("value", "panic"),
        "rule": "A: every buffer of length 0..3 over a 4-value pool x offsets 0..12 and usize::MAX-8..MAX x widths x 5 "
                "byte-order specs (+ all 65536 two-byte buffers in thorough), each case distinct by construction; "
                "B: random/boundary buffers, offsets and widths; a case is non-trivial when the read is in range or "
                "straddles the end",
        "assumptions": COMMON_ASSUME,
    },
}
