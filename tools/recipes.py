import features
import behaviours

STREAM_A = behaviours.stream_hook("MC_Stream", {"quick": "MC_Stream_q", "thorough": "MC_Stream_t"})
NEG_STREAM = [("MC_Stream", "NEG_Stream_" + v) for v in ("insert_before_read", "key_by_start", "no_seek", "read_not_exact", "no_length_guard", "eager_read", "lazy_seek", "evict_on_pressure")]
"""Per-property recipes: which bounded instances are model-checked and replayed (direction A),
which generator families are recorded and trace-validated (direction B), and which rejection
reasons count for the property."""

COMMON_ASSUME = [
    "host: x86_64 little-endian, usize = 64 bit (reported by the harness, asserted by the spec)",
    "the operational TLA+ model (spec/Parse.tla ...) is my transcription of the code; its fidelity is what conformance tests",
    "TLC, the JSON community module and serde_json are trusted",
]

QN = ["shdrs_with_strtab", "shdr_by_name", "section_data", "section_data_as_strtab", "section_data_as_rels",
      "section_data_as_relas", "section_data_as_notes", "segment_data", "segment_data_as_notes", "symbol_table",
      "dynamic_symbol_table", "dynamic", "symbol_version_table", "find_common_data"]
Q_ALL = ["open"] + ["q:" + n for n in QN]
SQ_ALL = ["sopen"] + ["sq:" + n for n in QN]
SLICE_FAMILIES_Q = [("readint", 1500, 1), ("parse", 1500, 1), ("table", 500, 1), ("strtab", 400, 1), ("ident", 800, 1),
                    ("notes", 1000, 1), ("gnuhash", 60, 1), ("sysvhash", 60, 1), ("symver", 60, 1), ("links", 1500, 1),
                    ("elf", 8, 2), ("elfcorrupt", 25, 4), ("garbage", 150, 1), ("locate", 30, 1), ("misc", 1500, 1)]
SLICE_FAMILIES_T = [("readint", 20000, 1), ("parse", 20000, 2), ("table", 5000, 2), ("strtab", 4000, 1), ("ident", 8000, 1),
                    ("notes", 10000, 2), ("gnuhash", 600, 3), ("sysvhash", 600, 3), ("symver", 500, 3), ("links", 15000, 2),
                    ("elf", 40, 6), ("elfcorrupt", 150, 14), ("garbage", 1500, 2), ("locate", 200, 2), ("misc", 70500, 1)]

RECIPES = {
    "C04": {
        "level": "model_checking",
        "mc": {"quick": [("MC_ReadInt", "MC_ReadInt_q")], "thorough": [("MC_ReadInt", "MC_ReadInt_t")]},
        "families": {"quick": [("readint", 3000, 4)], "thorough": [("readint", 20000, 14)]},
        "reasons": ("value", "panic"),
        "rule": "A: every buffer of length 0..3 over a 4-value pool x offsets 0..12 and usize::MAX-8..MAX x widths x 5 "
                "byte-order specs (+ all 65536 two-byte buffers in thorough), each case distinct by construction; "
                "B: random/boundary buffers, offsets and widths; a case is non-trivial when the read is in range or "
                "straddles the end",
        "assumptions": COMMON_ASSUME,
    },
    "C02": {
        "level": "model_checking",
        "mc": {"quick": [("MC_Decode", "MC_Decode_q")], "thorough": [("MC_Decode", "MC_Decode_t")]},
        "families": {"quick": [("parse", 2500, 4), ("ident", 500, 1), ("table", 400, 2)],
                     "thorough": [("parse", 20000, 12), ("ident", 5000, 2), ("table", 3000, 4)]},
        "reasons": ("value", "panic"),
        "rule": "A: for 18 structures x 2 classes x 4 byte-order values: every field set to each of {0,1,0x7f..,0x80..,all-ones} "
                "over two per-byte-distinct backgrounds (top bits clear / set), ABI encoder vs code decoder, plus the packed-field "
                "accessors over their whole domain; B: random / boundary bytes of each structure decoded by the crate and by the "
                "spec; every case is distinct by construction; entries reached through tables and iterators (get(i), next, nth, "
                "skip, step_by) must be the decoding of the i-th ABI-sized slot in either class",
        "assumptions": COMMON_ASSUME + ["private fields (vd_aux, vd_next, vn_aux, vn_next, vna_next, vda_next) are observed through iteration (C13/C16), not here"],
    },
    "C09": {
        "custom": [behaviours.apalache_iter_induction],
        "level": "model_checking",
        "mc": {"quick": [("MC_Table", "MC_Table_q", 12)], "thorough": [("MC_Table", "MC_Table_t", 14)]},
        "families": {"quick": [("table", 800, 4)], "thorough": [("table", 6000, 12)]},
        "reasons": ("value", "panic"),
        "rule": "A: table state machine: entry types x classes x orders x byte lengths 0..es+1, 2es-1..2es+1, 3es, 4es-1 "
                "(ragged tails) x every access script of length 2 over len/is_empty/iter/into_iter/get(i), i in 0..len+2, "
                "usize::MAX, usize::MAX/entsize, plus every walk <prefix of next/nth(k)> + <rest|fold|count|last|skip(k)|step_by(k)|nth(MAX)> "
                "on one iterator object (Iter.tla); B: random lengths/contents/scripts of up to 5 accesses or walks on one table "
                "object, incl. tables of 255..257, 1000 and 65535..65537 entries",
        "assumptions": COMMON_ASSUME,
    },
    "C15": {
        "level": "model_checking",
        "mc": {"quick": [("MC_StrTab", "MC_StrTab_q"), ("MC_Utf8", "MC_Utf8_q")],
               "thorough": [("MC_StrTab", "MC_StrTab_t", 12), ("MC_Utf8", "MC_Utf8_t", 12)]},
        "families": {"quick": [("strtab", 500, 4)], "thorough": [("strtab", 4000, 12)]},
        "reasons": ("value", "panic"),
        "rule": "A: every table of <= 5 (thorough 7) bytes over {NUL,'a',0xC3,0xA9} x every offset 0..len+2 and usize::MAX x "
                "{get_raw,get}, and every string of <= 3 (thorough 4) bytes over the 24 boundary bytes of the UTF-8 encoding through "
                "get(); B: random tables up to 300 bytes, offsets incl. usize::MAX, plus constructed tables holding one NUL-free "
                "run of 254..257 / 65534..65537 / 70000 bytes (every window in every shard); error kinds are not compared "
                "(the property only says 'an error')",
        "assumptions": COMMON_ASSUME,
    },
    "C10": {
        "level": "model_checking",
        "mc": {"quick": [("MC_Ident", "MC_Ident_q"), ("MC_Paths", "MC_Paths_q", 8), ("MC_SymVer", "MC_SymVer_q", 8), ("MC_Decode", "MC_Decode_q")],
               "thorough": [("MC_Ident", "MC_Ident_t"), ("MC_Paths", "MC_Paths_t", 10), ("MC_SymVer", "MC_SymVer_t", 12), ("MC_Decode", "MC_Decode_t")]},
        "families": {"quick": [("ident", 1500, 2), ("locate", 40, 2), ("elf", 5, 2), ("symver", 40, 2), ("table", 300, 1), ("notes", 300, 1)],
                     "thorough": [("ident", 10000, 8), ("locate", 300, 4), ("elf", 40, 4), ("symver", 300, 4), ("table", 3000, 2), ("notes", 3000, 2)]},
        "reasons": ("value", "panic"),
        "tags": ["ident", "tail", "symver", "symver_req", "symver_def", "verdef_iter", "verneed_iter", "verdaux_iter", "vernaux_iter",
                 "parse_at", "notes", "iter", "tbl", "tbl_get", "tbl_iter", "tbl_into_iter", "tbl_walk"] + Q_ALL + SQ_ALL,
        "rule": "A: all 256 EI_DATA / EI_CLASS / EI_VERSION values, all single-byte and 4^4 (thorough 6^4) multi-byte magic "
                "corruptions, two-defect idents, short buffers x 4 byte-order specs; error kind and payload are compared when "
                "the ident has exactly one defect; B: generated objects (incl. extended numbering, both orders) opened with Any, the matching "
                "fixed spec, the other fixed spec and Native, full query sweep: every answer is judged against the same semantics, so "
                "Any and the matching fixed spec must agree on everything; the same below the file level: version tables, structures, "
                "tables and notes decoded with the run-time (Any) and the compile-time order values (direction A: MC_SymVer, MC_Decode)",
        "assumptions": COMMON_ASSUME,
    },
    "C14": {
        "level": "model_checking",
        "mc": {"quick": [("MC_Notes", "MC_Notes_q", 12)], "thorough": [("MC_Notes", "MC_Notes_t", 14)]},
        "families": {"quick": [("notes", 1500, 4), ("elf", 6, 2), ("stream", 8, 3)],
                     "thorough": [("notes", 12000, 12), ("elf", 40, 4), ("stream", 60, 6)]},
        "reasons": ("value", "panic"),
        "tags": ["notes", "q:section_data_as_notes", "q:segment_data_as_notes", "sq:section_data_as_notes", "sq:segment_data_as_notes"],
        "rule": "A: <= 2 notes encoded from the ABI text, namesz/descsz over every residue 0..align+1, alignments {0,1,3,4} "
                "(thorough {0,1,2,3,4,5,8,16}), plain / NUL-terminated / GNU ABI-tag / build-id, both orders, cut tails and "
                "trailing junk: TLC checks iteration = the encoder's ground truth, every case replayed; "
                "B: 0..5 notes, namesz/descsz 0..20, alignment {1,2,4,8,16,3,5,6,7,12,32,0,2^31,2^32-1,2^63,2^64-1}, both "
                "classes and orders, typed GNU notes, trailing garbage / truncation / one corrupted byte; TLC compares the "
                "iteration with the operational model and the operational model with the declarative record layout; the "
                "section and segment paths of both parsers on generated objects (PT_NOTE over the note section or over its "
                "leading notes only; on a stream: after caller-made reads that share the section's start or end), and walks "
                "(nth/skip/step_by/...) over the iterator",
        "assumptions": COMMON_ASSUME,
    },
    "C11": {
        "level": "model_checking",
        "mc": {"quick": [("MC_Hash", "MC_Gnu_q", 10), ("MC_Hash", "MC_GnuB", 8)], "thorough": [("MC_Hash", "MC_Gnu_t", 14), ("MC_Hash", "MC_GnuB", 8)]},
        "families": {"quick": [("gnuhash", 120, 4)], "thorough": [("gnuhash", 1000, 12)]},
        "reasons": ("value", "panic"),
        "rule": "A: .gnu.hash sections built in TLA+ from the format description for every set of <= 2 (thorough 3) names of a "
                "9-name pool (empty, non-UTF-8, djb2-colliding pair, bit-0 pair, long) x nbucket x bloom words x shift x symoffset x "
                "class/order: TLC checks well-formedness, completeness for every pool name (present and absent) and soundness, "
                "and emits each table with 11 lookups for replay; the same for a pool of names whose hashes are 0 (twice), 1, 2^32-1 "
                "and 2^32-2 (chain words 0, 1 and all-ones), in one to three buckets; "
                "B: harness-built .gnu.hash tables (1..60 symbols, nbucket 1..n, bloom 1..64 words, shift 0..31, symoffset 1..3, "
                "both classes/orders, djb2-colliding and same-bucket absent names, duplicates, empty and non-UTF-8 names) and "
                "corrupted variants; TLC itself checks the table is well formed before demanding completeness; soundness always",
        "assumptions": COMMON_ASSUME,
    },
    "C12": {
        "level": "model_checking",
        "mc": {"quick": [("MC_Links", "MC_Links_q"), ("MC_Hash", "MC_Sysv_q", 8), ("MC_Hash", "MC_SysvB", 6)],
               "thorough": [("MC_Links", "MC_Links_t", 12), ("MC_Hash", "MC_Sysv_t", 12), ("MC_Hash", "MC_SysvB", 6)]},
        "families": {"quick": [("sysvhash", 120, 4)], "thorough": [("sysvhash", 1000, 12)]},
        "reasons": ("value", "panic"),
        "rule": "A: .hash sections built in TLA+ for every set of <= 3 (thorough 4) pool names x nbucket 1..3 x class/order "
                "(completeness, soundness, replay), the same for a pool of names on which (h << 4) + c carries out of 32 bits (and "
                "just does not), and every bucket/chain function over 3 (4) symbols (MC_Links); "
                "B: harness-built .hash tables and corrupted variants, as C11; hash function vs the gABI elf_hash text",
        "assumptions": COMMON_ASSUME,
    },
    "C13": {
        "level": "model_checking",
        "mc": {"quick": [("MC_SymVer", "MC_SymVer_q", 8), ("MC_VerFile", "MC_VerFile_q", 10)],
               "thorough": [("MC_SymVer", "MC_SymVer_t", 12), ("MC_VerFile", "MC_VerFile_t", 14)]},
        "families": {"quick": [("symver", 100, 4), ("elf", 8, 2), ("stream", 5, 2)],
                     "thorough": [("symver", 800, 12), ("elf", 60, 4), ("stream", 40, 4)]},
        "reasons": ("value", "panic"),
        "tags": ["symver", "symver_req", "symver_def", "verdef_iter", "verneed_iter", "verdaux_iter", "vernaux_iter",
                 "q:symbol_version_table", "sq:symbol_version_table"],
        "rule": "A: .gnu.version/_r/_d encoded in TLA+ for every model with <= 2 verneed files x <= 2 aux, <= 2 verdefs x <= 2 names, "
                "contiguous and records-then-auxes layouts, versym holding every kind of index (local, global, each listed one, an "
                "unlisted one; plain and hidden): TLC checks the operational queries against the declarative ReqOk/DefOk and emits "
                "each object with all queries for replay; MC_VerFile: the same models inside an object built from the ABI (.dynsym, "
                ".gnu.version, _r, _d; requirements and definitions naming different string tables; both section orders), through "
                "ElfBytes::symbol_version_table; B: version models (0..12 verneed x 0..6 aux, 0..12 verdef x 1..3 names, versym mixing 0,1,defined,needed,unknown, "
                "hidden), contiguous / records-then-auxes / gapped layouts, both classes/orders, via SymbolVersionTable::new; "
                "every symbol index 0..len+1 and huge; result compared with the operational model and the ground-truth model; "
                "generated objects through ElfBytes and ElfStream (definitions sometimes with a string table of their own)",
        "assumptions": COMMON_ASSUME,
    },
    "C16": {
        "level": "model_checking",
        "mc": {"quick": [("MC_Links", "MC_Links_q")], "thorough": [("MC_Links", "MC_Links_t", 12)]},
        "families": {"quick": [("links", 1500, 3), ("notes", 500, 1), ("sysvhash", 80, 2), ("gnuhash", 50, 1)],
                     "thorough": [("links", 12000, 10), ("notes", 4000, 2), ("sysvhash", 600, 4), ("gnuhash", 400, 4)]},
        "reasons": ("steps", "panic", "died"),
        "rule": "A: every SysV table over 3 (thorough 4) symbols with buckets and chains as arbitrary functions into 0..n (all cycle "
                "lengths, self-loops, out-of-range links) x present/absent names, replayed; "
                "B: hash tables with field-aware corrupted buckets/chains; adversarial version-record chains (next in {0,1,size-1,size,2^31,2^32-1,to-end}, counts up to u64::MAX, aux "
                "offsets up to 2^32-1, starts up to usize::MAX); items <= bytes and <= count are part of the trace spec; a call "
                "exceeding 5 s CPU (inputs here are <= 64 KiB), in two identical runs in a row, is recorded as died",
        "assumptions": COMMON_ASSUME,
    },
    "C03": {
        "level": "model_checking",
        "mc": {"quick": [("MC_Range", "MC_Range_q"), ("MC_Corrupt", "MC_Corrupt_q", 12)],
               "thorough": [("MC_Range", "MC_Range_t"), ("MC_Corrupt", "MC_Corrupt_t", 14)]},
        "families": {"quick": [("elf", 10, 4), ("elfcorrupt", 14, 3), ("notes", 800, 1), ("strtab", 300, 1)],
                     "thorough": [("elf", 60, 8), ("elfcorrupt", 80, 8), ("notes", 8000, 2), ("strtab", 4000, 1)]},
        "reasons": ("value", "panic"),
        "tags": ["q:section_data", "q:segment_data", "q:section_data_as_strtab", "q:section_data_as_notes",
                 "q:segment_data_as_notes", "q:section_data_as_rels", "q:section_data_as_relas", "q:shdrs_with_strtab",
                 "q:symbol_table", "q:dynamic_symbol_table", "q:dynamic", "q:symbol_version_table", "q:find_common_data",
                 "notes", "str_get_raw", "str_get"],
        "rule": "A: minimal object + payload; caller-made section/segment headers with offset x size over {0,1,64,65,L-1,L,L+1,"
                "2^31,2^32-1,2^63,2^64-1} x {0,1,23,24,25,L-64,L-63,L,...} x {PROGBITS,STRTAB,NOTE,NOBITS,REL} x SHF_COMPRESSED, "
                "p_memsz != p_filesz: TLC checks 'ok => exactly the designated range inside the file, NOBITS empty, not fitting "
                "=> error' on the spec and emits each case as a session (open + 4 views) replayed on the crate; "
                "B: generated objects (both classes/orders; overlapping, zero-length, EOF-touching, gapped sections; NOBITS; "
                "SHF_COMPRESSED with fitting / truncated chdr; p_filesz != p_memsz) and structurally corrupted variants; every "
                "section/segment header as parsed plus mutated copies (offset/size in {0,1,len-1,len,len+1,2^31..2^64-1}) "
                "through section_data, segment_data and every typed view; each returned slice is projected to its (start,len) "
                "inside the caller's buffer and compared with the header-designated range computed by the spec",
        "assumptions": COMMON_ASSUME,
    },
    "C05": {
        "level": "model_checking",
        "mc": {"quick": [("MC_Locate", "MC_Locate_q", 10), ("MC_Corrupt", "MC_Corrupt_q", 12)],
               "thorough": [("MC_Locate", "MC_Locate_t", 14), ("MC_Corrupt", "MC_Corrupt_t", 14)]},
        "families": {"quick": [("locate", 40, 3), ("entsize", 25, 2), ("elf", 6, 2), ("elfcorrupt", 12, 2)],
                     "thorough": [("locate", 300, 6), ("entsize", 200, 4), ("elf", 40, 4), ("elfcorrupt", 80, 6)]},
        "reasons": ("value", "panic"),
        "tags": ["open", "sopen", "q:shdrs_with_strtab", "sq:shdrs_with_strtab", "q:shdr_by_name", "q:symbol_table",
                 "q:dynamic_symbol_table", "q:symbol_version_table", "q:dynamic", "q:find_common_data",
                 "sq:symbol_table", "sq:dynamic_symbol_table", "sq:symbol_version_table"],
        "rule": "A: objects built in TLA+ (1..3 sections, 0..2 segments, tables early/late, each extended-numbering escape on/off "
                "with pairwise distinct shdr[0] fields, one defect of {entsize+-1, entsize 0, cut by one byte, e_shoff=0, "
                "e_phoff=0}); TLC checks open against the builder's ground truth and emits each object as a session; "
                "B: sections whose sh_entsize is wrong for symtab/dynsym/.dynamic/.gnu.version (family entsize); "
                "section counts {1..5,0xfeff,0xff00,0xff01,0xff20}, program header counts {0..3,0xfffe,0xffff,0x10000,0x10010}, "
                "shstrndx below/at/above 0xff00, extended numbering forced on small counts too, shdr[0] sh_size/sh_info/sh_link "
                "pairwise distinct, tables before/after data, file cut 1..3 bytes short, every wrong entsize, e_shoff/e_phoff=0; "
                "both parsers; count, first/middle/last entries and the section-name table are compared with the spec",
        "assumptions": COMMON_ASSUME,
    },
    "C07": {
        "custom": [STREAM_A],
        "neg": {"quick": [NEG_STREAM[1], NEG_STREAM[2], NEG_STREAM[3]]},
        "level": "model_checking",
        "families": {"quick": [("stream", 8, 5), ("locate", 40, 2)], "thorough": [("stream", 60, 12), ("locate", 300, 4)]},
        "reasons": ("value", "panic"),
        "tags": SQ_ALL,
        "rule": "B: valid and corrupted objects opened through ElfStream over a scripted reader (full reads, 1-byte reads, random "
                "chunking, Interrupted and short reads at random I/O calls) and through ElfBytes; the whole accessor sweep twice "
                "in different orders on one stream object; TLC checks every stream answer against the stream semantics and the "
                "stream/slice relation (outcome coincidence, identical designated ranges) of C07",
        "assumptions": COMMON_ASSUME,
    },
    "C08": {
        "custom": [STREAM_A],
        "neg": {"quick": [NEG_STREAM[4], NEG_STREAM[5], NEG_STREAM[7]]},
        "level": "model_checking",
        "families": {"quick": [("sbig", 14, 4), ("stream", 5, 2), ("sfault", 2, 2)], "thorough": [("sbig", 120, 10), ("stream", 40, 4), ("sfault", 12, 4)]},
        "reasons": ("bound", "lazy", "panic", "died"),
        "tags": SQ_ALL,
        "rule": "B: objects whose size/offset/count/link fields claim 2^20..2^64-1 in streams of a few KiB; per call the largest "
                "single allocation (counting allocator) must be <= 8*len+16KiB and every byte read (instrumented reader) must lie "
                "in a range the call designates (spec-computed), also on the calls that follow an I/O fault (a retry must not read "
                "from wherever the failed call left the cursor); oversized requests above 1 GiB are refused and recorded as died",
        "assumptions": COMMON_ASSUME + ["the harness's own bookkeeping allocations are excluded by pausing the counter inside reader callbacks and projections"],
    },
    "C17": {
        "custom": [STREAM_A, behaviours.apalache_induction],
        "neg": {"quick": [NEG_STREAM[0], NEG_STREAM[6]]},
        "mc": {"quick": [("MC_Stream", "LIVE_Stream", 4)], "thorough": [("MC_Stream", "LIVE_Stream", 4)]},
        "level": "fault_enumeration",
        "families": {"quick": [("sfault", 3, 4)], "thorough": [("sfaultall", 1, 12), ("sfault", 20, 4)]},
        "reasons": ("value", "panic"),
        "tags": SQ_ALL,
        "rule": "B: per generated object a fault-free pass fixes the accessor script and counts the I/O calls n; then one session "
                "per sampled (thorough: every) I/O call index x kind {error, premature EOF; short read, Interrupted as benign}, "
                "some permanent, followed by the whole script again on the same stream; a call that saw a hard fault must return "
                "an error, later calls must return an error or exactly the fault-free answer; distinct = distinct (file, index, kind)",
        "assumptions": COMMON_ASSUME,
    },
    "C18": {
        "level": "model_checking",
        "mc": {"quick": [("MC_Prefix", "MC_Prefix_q", 12)], "thorough": [("MC_Prefix", "MC_Prefix_t", 14)]},
        "families": {"quick": [("prefix", 2, 4)], "thorough": [("prefixall", 1, 6), ("prefix", 8, 6)]},
        "reasons": ("value", "panic"),
        "tags": Q_ALL + SQ_ALL,
        "rule": "A: a template object built in TLA+ from the ABI (7 sections: names, .dynstr, .dynsym, .dynamic, note, text; "
                "PT_DYNAMIC, PT_NOTE; tables early), EVERY prefix length 0..len (quick: ELF32 MSB, 498 prefixes; thorough: all four "
                "encodings, plus an ET_CORE variant with a PT_LOAD segment) x 22 queries: TLC checks PrefixRel on the spec and emits every prefix as a session replayed on the crate; "
                "B: objects laid out with tables early; every structure boundary +-1 (thorough: every prefix length) and appended "
                "suffixes; every other object carries a section of a little over 1 MiB; the full query sweep on each prefix through "
                "the slice parser and (for a third of the prefixes, and all of the large objects') the stream parser; TLC checks (i) the answer equals the spec's semantics on the prefix "
                "and (ii) the spec's answer on the prefix is an error or equals its answer on the complete file (PrefixRel)",
        "assumptions": COMMON_ASSUME + ["'appending changes no answer' is read as: non-error answers are unchanged"],
    },
    "C20": {
        "level": "model_checking",
        "mc": {"quick": [("MC_Paths", "MC_Paths_q", 6), ("MC_Corrupt", "MC_Corrupt_q", 12)],
               "thorough": [("MC_Paths", "MC_Paths_t", 10), ("MC_Corrupt", "MC_Corrupt_t", 14)]},
        "families": {"quick": [("elf", 10, 4), ("elfcorrupt", 8, 2), ("stream", 5, 2)],
                     "thorough": [("elf", 80, 8), ("elfcorrupt", 60, 6), ("stream", 40, 4)]},
        "reasons": ("value", "panic"),
        "tags": [p + n for p in ("q:", "sq:") for n in ("find_common_data", "shdr_by_name", "section_data_as_strtab",
                 "section_data_as_rels", "section_data_as_relas", "section_data_as_notes", "segment_data_as_notes", "dynamic",
                 "symbol_table", "dynamic_symbol_table")],
        "rule": "A: objects built in TLA+ with/without each of .symtab .dynsym .dynamic .hash PT_DYNAMIC, names that are "
                "prefixes/extensions/duplicates and a non-UTF-8 name: TLC checks find_common_data = targeted accessors, by-name = "
                "first equal name for every name/prefix/extension, typed view refused iff type differs, section path = segment "
                "path; each object emitted as a session (~60 queries) and replayed; "
                "B: objects with/without each of .symtab .dynsym .dynamic .hash .gnu.hash PT_DYNAMIC, names that are prefixes / "
                "extensions / duplicates of each other and a non-UTF-8 name, queried by every name, prefix, extension; every "
                "typed view on every section/segment type; find_common_data compared field by field (tables by entries, string "
                "tables by walk, hash tables by lookups) with the targeted accessors' semantics",
        "assumptions": COMMON_ASSUME,
    },
    "C01": {
        "level": "exploration",
        "mc": {"quick": [("MC_Corrupt", "MC_Corrupt_q", 12), ("MC_Hash", "MC_Gnu_q", 10), ("MC_Hash", "MC_Sysv_q", 6), ("MC_Links", "MC_Links_q", 4)],
               "thorough": [("MC_Corrupt", "MC_Corrupt_t", 14), ("MC_Hash", "MC_Gnu_t", 14), ("MC_Hash", "MC_Sysv_t", 12), ("MC_Links", "MC_Links_t", 12)]},
        "families": {"quick": SLICE_FAMILIES_Q, "thorough": SLICE_FAMILIES_T},
        "reasons": ("panic", "died"),
        "tags": None,
        "rule": "A: the spec-derived corruption corpus (MC_Corrupt): every header field of a template object x 9 boundary values, "
                "full query script, replayed; B: every slice-parser generator family (stand-alone readers and ParseAt types at offsets up to usize::MAX, "
                "tables/iterators with indices near usize::MAX, string tables, idents of every length, notes with alignments "
                "0..2^64-1, hash tables with corrupted headers, version iterators with counts up to u64::MAX, whole objects with "
                "every header field set to boundary values, truncations, random bytes) with overflow checks and debug assertions "
                "on; a panic, abort or a call over its CPU budget (5 s up to 64 KiB of input, proportional beyond; confirmed by a second identical run) anywhere is the violation; a case is non-trivial when it reaches a crate call",
        "assumptions": COMMON_ASSUME + ["observational: absence of panics is shown on the enumerated and sampled inputs only"],
    },
    "C06": {
        "level": "model_checking",
        "custom": [features.feature_check],
        "mc": {"quick": [("MC_Corrupt", "MC_Corrupt_q", 12)], "thorough": [("MC_Corrupt", "MC_Corrupt_t", 14)]},
        "families": {"quick": SLICE_FAMILIES_Q, "thorough": SLICE_FAMILIES_T},
        "reasons": ("alloc", "value"),
        "tags": None,
        "only_reasons_by_tag": {"value": ["feature", "feature_core"]},
        "rule": "allocation clause: the counting global allocator is armed around every slice-parser call of every generator "
                "family; TLC rejects any event with allocs > 0.  feature clause: cargo check for all 8 subsets of {alloc,std,"
                "to_str} + API-surface probes + a -Zbuild-std=core build of the no-default-features crate, judged against "
                "spec/Features.tla",
        "assumptions": COMMON_ASSUME + ["the compiler decides the feature clause; TLA+ carries the expectation table"],
    },
    "C19": {
        "level": "model_checking",
        "custom": [features.abi_reference_coverage],
        "families": {"quick": [("abi", 1, 1)], "thorough": [("abi", 1, 1)]},
        "reasons": ("value", "panic"),
        "tags": ["abi_const", "abi_struct", "to_str", "to_string"],
        "technique": "explicit TLA+ specification (reference table AbiRef.tla + structure layouts Abi.tla) + TLC trace validation of the compiled constants, struct layouts and to_str results",
        "rule": "every pub const of abi.rs with its compiled value vs the reference table (glibc elf.h + LLVM BinaryFormat, "
                "conflicting names left out; names the reference lacks are counted as unchecked), size_of/offset_of of the 16 "
                "C-layout structs vs Abi.tla, every to_str helper over its whole domain (u8, u16) or over all constant values "
                "+-1 and random values (u32, i64): a produced name must be an exported constant of that value; to_string "
                "falls back to text containing the number",
        "assumptions": COMMON_ASSUME + ["note_abi_tag_os_to_str and the *_human_str helpers produce prose, not symbolic names, and are out of scope",
                                        "the reference table was extracted once from the headers on this image by tools/mk_abiref.py and is committed"],
    },
}
