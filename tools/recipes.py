"""Per-property recipes: which bounded instances are model-checked and replayed (direction A),
which generator families are recorded and trace-validated (direction B), and which rejection
reasons count for the property."""

COMMON_ASSUME = [
    "host: x86_64 little-endian, usize = 64 bit (reported by the harness, asserted by the spec)",
    "the operational TLA+ model (spec/Parse.tla ...) is my transcription of the code; its fidelity is what conformance tests",
    "TLC, the JSON community module and serde_json are trusted",
]

RECIPES = {
    "C04": {
        "level": "model_checking",
        "mc": {"quick": [("MC_ReadInt", "MC_ReadInt_q")], "thorough": [("MC_ReadInt", "MC_ReadInt_t")]},
        "families": {"quick": [("readint", 3000, 4)], "thorough": [("readint", 20000, 14)]},
        "reasons": ("value", "panic"),
        "rule": "A: every buffer of length 0..3 over a 4-value pool x offsets 0..12 and usize::MAX-8..MAX x widths x 5 "
                "byte-order specs (+ all 65536 two-byte buffers in thorough), each case distinct by construction; "
                "B: random/boundary buffers, offsets and widths; a case is non-trivial when the read is in range or "
                "straddles the end",
        "assumptions": COMMON_ASSUME,
    },
    "C02": {
        "level": "model_checking",
        "mc": {"quick": [("MC_Decode", "MC_Decode_q")], "thorough": [("MC_Decode", "MC_Decode_t")]},
        "families": {"quick": [("parse", 2500, 4), ("ident", 500, 1)], "thorough": [("parse", 20000, 12), ("ident", 5000, 2)]},
        "reasons": ("value", "panic"),
        "rule": "A: for 18 structures x 2 classes x 4 byte-order values: every field set to each of {0,1,0x7f..,0x80..,all-ones} "
                "over two per-byte-distinct backgrounds (top bits clear / set), ABI encoder vs code decoder, plus the packed-field "
                "accessors over their whole domain; B: random / boundary bytes of each structure decoded by the crate and by the "
                "spec; every case is distinct by construction",
        "assumptions": COMMON_ASSUME + ["private fields (vd_aux, vd_next, vn_aux, vn_next, vna_next, vda_next) are observed through iteration (C13/C16), not here"],
    },
    "C09": {
        "level": "model_checking",
        "mc": {"quick": [("MC_Table", "MC_Table_q", 12)], "thorough": [("MC_Table", "MC_Table_t", 14)]},
        "families": {"quick": [("table", 800, 4)], "thorough": [("table", 6000, 12)]},
        "reasons": ("value", "panic"),
        "rule": "A: table state machine: entry types x classes x orders x byte lengths 0..es+1, 2es-1..2es+1, 3es, 4es-1 "
                "(ragged tails) x every access script of length 2 over len/is_empty/iter/into_iter/get(i), i in 0..len+2, "
                "usize::MAX, usize::MAX/entsize; B: random lengths/contents/scripts of up to 5 accesses on one table object",
        "assumptions": COMMON_ASSUME,
    },
    "C15": {
        "level": "model_checking",
        "mc": {"quick": [("MC_StrTab", "MC_StrTab_q")], "thorough": [("MC_StrTab", "MC_StrTab_t", 12)]},
        "families": {"quick": [("strtab", 500, 4)], "thorough": [("strtab", 4000, 12)]},
        "reasons": ("value", "panic"),
        "rule": "A: every table of <= 5 (thorough 7) bytes over {NUL,'a',0xC3,0xA9} x every offset 0..len+2 and usize::MAX x "
                "{get_raw,get}; B: random tables up to 300 bytes, offsets incl. usize::MAX; error kinds are not compared "
                "(the property only says 'an error')",
        "assumptions": COMMON_ASSUME,
    },
    "C10": {
        "level": "model_checking",
        "mc": {"quick": [("MC_Ident", "MC_Ident_q")], "thorough": [("MC_Ident", "MC_Ident_t")]},
        "families": {"quick": [("ident", 1500, 2)], "thorough": [("ident", 10000, 8)]},
        "reasons": ("value", "panic"),
        "rule": "A: all 256 EI_DATA / EI_CLASS / EI_VERSION values, all single-byte and 4^4 (thorough 6^4) multi-byte magic "
                "corruptions, two-defect idents, short buffers x 4 byte-order specs; error kind and payload are compared when "
                "the ident has exactly one defect",
        "assumptions": COMMON_ASSUME,
    },
}
