"""Per-property recipes: which bounded instances are model-checked and replayed (direction A),
which generator families are recorded and trace-validated (direction B), and which rejection
reasons count for the property."""

COMMON_ASSUME = [
    "host: x86_64 little-endian, usize = 64 bit (reported by the harness, asserted by the spec)",
    "the operational TLA+ model (spec/Parse.tla ...) is my transcription of the code; its fidelity is what conformance tests",
    "TLC, the JSON community module and serde_json are trusted",
]

RECIPES = {
    "C04": {
        "level": "model_checking",
        "mc": {"quick": [("MC_ReadInt", "MC_ReadInt_q")], "thorough": [("MC_ReadInt", "MC_ReadInt_t")]},
        "families": {"quick": [("readint", 3000, 4)], "thorough": [("readint", 20000, 14)]},
        "reasons": ("value", "panic"),
        "rule": "A: every buffer of length 0..3 over a 4-value pool x offsets 0..12 and usize::MAX-8..MAX x widths x 5 "
                "byte-order specs (+ all 65536 two-byte buffers in thorough), each case distinct by construction; "
                "B: random/boundary buffers, offsets and widths; a case is non-trivial when the read is in range or "
                "straddles the end",
        "assumptions": COMMON_ASSUME,
    },
    "C02": {
        "level": "model_checking",
        "mc": {"quick": [("MC_Decode", "MC_Decode_q")], "thorough": [("MC_Decode", "MC_Decode_t")]},
        "families": {"quick": [("parse", 2500, 4), ("ident", 500, 1)], "thorough": [("parse", 20000, 12), ("ident", 5000, 2)]},
        "reasons": ("value", "panic"),
        "rule": "A: for 18 structures x 2 classes x 4 byte-order values: every field set to each of {0,1,0x7f..,0x80..,all-ones} "
                "over two per-byte-distinct backgrounds (top bits clear / set), ABI encoder vs code decoder, plus the packed-field "
                "accessors over their whole domain; B: random / boundary bytes of each structure decoded by the crate and by the "
                "spec; every case is distinct by construction",
        "assumptions": COMMON_ASSUME + ["private fields (vd_aux, vd_next, vn_aux, vn_next, vna_next, vda_next) are observed through iteration (C13/C16), not here"],
    },
    "C09": {
        "level": "model_checking",
        "mc": {"quick": [("MC_Table", "MC_Table_q", 12)], "thorough": [("MC_Table", "MC_Table_t", 14)]},
        "families": {"quick": [("table", 800, 4)], "thorough": [("table", 6000, 12)]},
        "reasons": ("value", "panic"),
        "rule": "A: table state machine: entry types x classes x orders x byte lengths 0..es+1, 2es-1..2es+1, 3es, 4es-1 "
                "(ragged tails) x every access script of length 2 over len/is_empty/iter/into_iter/get(i), i in 0..len+2, "
                "usize::MAX, usize::MAX/entsize; B: random lengths/contents/scripts of up to 5 accesses on one table object",
        "assumptions": COMMON_ASSUME,
    },
    "C15": {
        "level": "model_checking",
        "mc": {"quick": [("MC_StrTab", "MC_StrTab_q")], "thorough": [("MC_StrTab", "MC_StrTab_t", 12)]},
        "families": {"quick": [("strtab", 500, 4)], "thorough": [("strtab", 4000, 12)]},
        "reasons": ("value", "panic"),
        "rule": "A: every table of <= 5 (thorough 7) bytes over {NUL,'a',0xC3,0xA9} x every offset 0..len+2 and usize::MAX x "
                "{get_raw,get}; B: random tables up to 300 bytes, offsets incl. usize::MAX; error kinds are not compared "
                "(the property only says 'an error')",
        "assumptions": COMMON_ASSUME,
    },
    "C10": {
        "level": "model_checking",
        "mc": {"quick": [("MC_Ident", "MC_Ident_q")], "thorough": [("MC_Ident", "MC_Ident_t")]},
        "families": {"quick": [("ident", 1500, 2)], "thorough": [("ident", 10000, 8)]},
        "reasons": ("value", "panic"),
        "rule": "A: all 256 EI_DATA / EI_CLASS / EI_VERSION values, all single-byte and 4^4 (thorough 6^4) multi-byte magic "
                "corruptions, two-defect idents, short buffers x 4 byte-order specs; error kind and payload are compared when "
                "the ident has exactly one defect",
        "assumptions": COMMON_ASSUME,
    },
    "C14": {
        "level": "model_checking",
        "mc": {"quick": [], "thorough": []},
        "families": {"quick": [("notes", 1500, 4)], "thorough": [("notes", 12000, 12)]},
        "reasons": ("value", "panic"),
        "rule": "B: 0..5 notes, namesz/descsz 0..20, alignment {1,2,4,8,16,3,5,6,7,12,32,0,2^31,2^32-1,2^63,2^64-1}, both "
                "classes and orders, typed GNU notes, trailing garbage / truncation / one corrupted byte; TLC compares the "
                "iteration with the operational model and the operational model with the declarative record layout",
        "assumptions": COMMON_ASSUME,
    },
    "C11": {
        "level": "model_checking",
        "mc": {"quick": [], "thorough": []},
        "families": {"quick": [("gnuhash", 120, 4)], "thorough": [("gnuhash", 1000, 12)]},
        "reasons": ("value", "panic"),
        "rule": "B: harness-built .gnu.hash tables (1..60 symbols, nbucket 1..n, bloom 1..64 words, shift 0..31, symoffset 1..3, "
                "both classes/orders, djb2-colliding and same-bucket absent names, duplicates, empty and non-UTF-8 names) and "
                "corrupted variants; TLC itself checks the table is well formed before demanding completeness; soundness always",
        "assumptions": COMMON_ASSUME,
    },
    "C12": {
        "level": "model_checking",
        "mc": {"quick": [], "thorough": []},
        "families": {"quick": [("sysvhash", 120, 4)], "thorough": [("sysvhash", 1000, 12)]},
        "reasons": ("value", "panic"),
        "rule": "B: harness-built .hash tables and corrupted variants, as C11; hash function vs the gABI elf_hash text",
        "assumptions": COMMON_ASSUME,
    },
    "C13": {
        "level": "model_checking",
        "mc": {"quick": [], "thorough": []},
        "families": {"quick": [("symver", 100, 4)], "thorough": [("symver", 800, 12)]},
        "reasons": ("value", "panic"),
        "rule": "B: version models (0..12 verneed x 0..6 aux, 0..12 verdef x 1..3 names, versym mixing 0,1,defined,needed,unknown, "
                "hidden), contiguous / records-then-auxes / gapped layouts, both classes/orders, via SymbolVersionTable::new; "
                "every symbol index 0..len+1 and huge; result compared with the operational model and the ground-truth model",
        "assumptions": COMMON_ASSUME,
    },
    "C16": {
        "level": "model_checking",
        "mc": {"quick": [], "thorough": []},
        "families": {"quick": [("links", 1500, 3), ("notes", 500, 1)], "thorough": [("links", 12000, 10), ("notes", 4000, 2)]},
        "reasons": ("value", "panic", "died"),
        "rule": "B: adversarial version-record chains (next in {0,1,size-1,size,2^31,2^32-1,to-end}, counts up to u64::MAX, aux "
                "offsets up to 2^32-1, starts up to usize::MAX); items <= bytes and <= count are part of the trace spec; a call "
                "exceeding 5 s CPU is recorded as died",
        "assumptions": COMMON_ASSUME,
    },
}
