#!/bin/sh
# usage: mutant_test.sh <patch.diff> <PROP> [tier]   -- applies the patch to a scratch worktree of /repo,
# runs the check against it, removes the worktree. Prints the check's exit code.
set -u
patch=$(readlink -f "$1"); prop=$2; tier=${3:-quick}
wt=/tmp/elfmut.$$
git -C /repo worktree add -q --detach "$wt" HEAD || exit 2
if ! git -C "$wt" apply "$patch"; then echo "PATCH-FAILED"; git -C /repo worktree remove --force "$wt"; exit 2; fi
suite=$(cd "$wt" && cargo test --offline 2>&1 | grep "test result" | head -1 | sed 's/finished.*//')
echo "MUTANT-SUITE $(basename $patch): $suite"
VERIF_REPO="$wt" /verif/check "$prop" "$tier"; rc=$?
echo "MUTANT-RESULT patch=$(basename $patch) prop=$prop exit=$rc"
git -C /repo worktree remove --force "$wt"
# restore the harness for /repo
exit $rc
