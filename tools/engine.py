"""Generic two-direction engine used by every property check (see ../check)."""
import json
import os
import time

import vlib
from vlib import log
from recipes import RECIPES


def _short(obj, limit=600):
    s = json.dumps(obj)
    return obj if len(s) <= limit else {"truncated": s[:limit]}


def known_match(kf, prop, text):
    for k in kf.get("open", []):
        if k.get("property") == prop and k.get("match") and k["match"] in text:
            return k
    return None


def run_property(prop, tier, seed):
    t0 = time.time()
    rc = RECIPES[prop]
    os.environ["VERIF_TIER"] = tier        # generators deepen some enumerations in the thorough tier
    vlib.ensure_dirs()
    bt = vlib.build_harness()
    reasons = rc.get("reasons", ("value", "panic"))
    kf = vlib.known_findings()
    cov = {"states": 0, "transitions": 0, "traces_validated_against_impl": 0, "samples": [],
           "mc_runs": [], "trace_runs": [], "cases_replayed": 0, "events_validated": 0,
           "build_s": round(bt, 1), "rule": rc.get("rule", ""), "checker_cmd": "./check %s %s" % (prop, tier)}
    violations = []     # (tag, ops, note)
    distinct = set()
    outcomes = {}
    known_hits = []

    # ---- optional pre-step (e.g. feature builds) implemented by the recipe
    if "custom" in rc:
        for fn in rc["custom"]:
            fn(prop, tier, seed, cov, violations)

    # ---- negative controls: the invariants used below must be falsifiable
    for (mod, cfg) in rc.get("neg", {}).get(tier, rc.get("neg", {}).get("quick", [])):
        if not vlib.expect_mc_violation(mod, cfg):
            raise vlib.ToolError("negative control %s/%s was not rejected: the invariant is vacuous" % (mod, cfg))
        cov.setdefault("negative_controls_rejected", []).append(cfg)

    # ---- direction A: model-check, emit cases, replay them on the implementation
    def do_mc(item):
        mod, cfg = item[0], item[1]
        cases = os.path.join(vlib.WORK, "%s.%s.cases.ndjson" % (prop, cfg))
        info = vlib.run_mc(mod, cfg, workers=item[2] if len(item) > 2 else 6, cases_out=cases)
        return info, cases

    mcs = rc.get("mc", {}).get(tier, [])
    for info, cases in vlib.pmap(do_mc, mcs, workers=3):
        vlib.require_mc_ok(info)
        cov["states"] += info["distinct_states"]
        cov["transitions"] += info["states_generated"]
        entry = {k: info[k] for k in ("module", "cfg", "distinct_states", "states_generated", "cases", "wall_s")}
        if info["cases"]:
            mism = os.path.join(vlib.WORK, "%s.%s.mismatch.ndjson" % (prop, info["cfg"]))
            r = vlib.harness(["replay", cases, mism])
            entry["replayed"] = r.get("cases", 0)
            entry["mismatches"] = r.get("mismatches", 0)
            cov["cases_replayed"] += r.get("cases", 0)
            cov["traces_validated_against_impl"] += r.get("cases", 0)
            if not r and os.path.getsize(mism + ".died") == 0:
                raise vlib.ToolError("harness replay produced no summary and no died record")
            ls = vlib.read_lines(cases)
            if ls:
                cov["samples"].append(_short(json.loads(ls[len(ls) // 2])))
            if os.path.getsize(mism + ".died") > 0:
                ops = [json.loads(x) for x in vlib.read_lines(mism + ".died")]
                violations.append(("A-%s-died" % info["cfg"], ops, "crate died while replaying a specification case"))
            taken = 0
            for k, l in enumerate(vlib.read_lines(mism)):
                if taken >= 3:
                    break
                try:
                    rec = json.loads(l)
                except ValueError:      # the harness died while writing this record; the died record is the finding
                    continue
                if rec.get("why", "value") not in reasons:
                    continue
                cs = rec.get("case", {})
                ctag = ("%s:%s" % (cs.get("op"), cs.get("name"))) if cs.get("op") in ("q", "sq") else cs.get("op")
                if rc.get("tags") is not None and ctag not in rc["tags"] and rec.get("why") != "panic":
                    cov.setdefault("mismatches_of_other_properties", []).append("A:%s" % ctag)
                    continue
                taken += 1
                ops = [json.loads(x) for x in rec["session"]]
                violations.append(("A-%s-%d" % (info["cfg"], k), ops,
                                   {"expected": rec["case"].get("exp"), "got": rec["got"]}))
        cov["mc_runs"].append(entry)

    # ---- direction B: record traces from the implementation, let TLC judge them
    jobs = []
    scale = int(os.environ.get("VERIF_THOROUGH_SCALE", "3")) if tier == "thorough" else 1
    for fam in rc.get("families", {}).get(tier, []):
        name, n, shards = fam[0], fam[1], fam[2]
        if name not in ("abi", "sfaultall", "prefixall"):
            shards = min(shards * scale, 42)          # thorough: more independent shards (each with its own seed)
        for s in range(shards):
            jobs.append((name, n, seed * 1000 + s))

    def do_trace(job):
        name, n, sd = job
        path = os.path.join(vlib.WORK, "%s.%s.%d.trace.ndjson" % (prop, name, sd))
        vlib.harness(["gen", name, sd, n, path], env_extra=rc.get("env"))
        died = os.path.getsize(path + ".died") > 0
        if died:        # the unflushed tail of the event file may be cut mid-line: keep complete lines only
            good = []
            for ln in open(path, errors="replace"):
                try:
                    json.loads(ln)
                    good.append(ln if ln.endswith("\n") else ln + "\n")
                except ValueError:
                    break
            open(path, "w").writelines(good)
        r = vlib.validate_trace(path, timeout=5400 if tier == "thorough" else 1800)
        r["family"] = name
        r["seed"] = sd
        r["died"] = died
        return r

    for r in vlib.pmap(do_trace, jobs, workers=min(vlib.NCPU, 14)):
        if not r["consumed"] and not r["died"]:
            # TLC stopped before the end of the trace (an evaluation error on an event shape the spec does not
            # anticipate).  Events rejected BEFORE that point stand on their own; without any, it is a tool error.
            tags0 = rc.get("tags")
            early = [m for m in r["mismatches"] if m[1] in reasons and (tags0 is None or m[2] in tags0)]
            if not early:
                log(r.get("tail", ""))
                raise vlib.ToolError("trace validation of %s did not complete (tooling or trace format problem)" % r["path"])
            cov.setdefault("traces_not_fully_consumed", []).append(os.path.basename(r["path"]))
        cov["states"] += r["states"]
        cov["transitions"] += r["transitions"]
        cov["events_validated"] += r["events"]
        cov["traces_validated_against_impl"] += 1
        cov["trace_runs"].append({k: r[k] for k in ("family", "seed", "events", "wall_s")} |
                                 {"mismatches": len(r["mismatches"])})
        lines = None
        if r["died"]:
            ops = [json.loads(x) for x in vlib.read_lines(r["path"] + ".died")]
            if "died" in reasons or "panic" in reasons:
                violations.append(("B-%s-%d-died" % (r["family"], r["seed"]), ops, "crate died (abort, oversized allocation or timeout)"))
        if any(m[1] == "gen" for m in r["mismatches"]):
            raise vlib.ToolError("generator produced an input the specification's well-formedness predicate rejects: %s line %d"
                                 % (r["path"], [m for m in r["mismatches"] if m[1] == "gen"][0][0]))
        tags = rc.get("tags")
        only = rc.get("only_reasons_by_tag", {})
        bad = [m for m in r["mismatches"] if m[1] in reasons and (tags is None or m[2] in tags)
               and (m[1] not in only or m[2] in only[m[1]])]
        other = [m for m in r["mismatches"] if m not in bad and m[1] != "gen"]
        if other:
            cov.setdefault("mismatches_of_other_properties", []).extend(["%s:%s" % (m[1], m[2]) for m in other[:5]])
        if bad:
            lines = vlib.read_lines(r["path"])
            for k, (ln, why, _tag) in enumerate(bad[:3]):
                ops = vlib.events_to_ops(vlib.session_around(lines, ln))
                violations.append(("B-%s-%d-%d" % (r["family"], r["seed"], ln), ops,
                                   {"rejected_line": ln, "reason": why, "event": json.loads(lines[ln - 1])}))
        # distinct non-trivial cases of this trace: distinct (operation, arguments) that reached a crate call
        if lines is None:
            lines = vlib.read_lines(r["path"])
        for ln in lines:
            if '"res":' in ln:
                e = json.loads(ln)
                ok_out = e["res"].get("out")
                for k in ("res", "allocs", "maxalloc", "io", "calls", "faulted"):
                    e.pop(k, None)
                distinct.add(hash(json.dumps(e, sort_keys=True)))
                outcomes[ok_out] = outcomes.get(ok_out, 0) + 1
        if len(cov["samples"]) < 4 and r["events"] > 2:
            if lines is None:
                lines = vlib.read_lines(r["path"])
            cov["samples"].append(_short(json.loads(lines[min(len(lines) - 1, 2)])))

    # ---- verdict
    real = []
    for tag, ops, note in violations:
        text = json.dumps(ops) + json.dumps(note)
        k = known_match(kf, prop, text)
        if k:
            known_hits.append(k)
        else:
            real.append((tag, ops, note))
    seen = set()
    for k in known_hits:
        if k["id"] not in seen:
            seen.add(k["id"])
            log("KNOWN-FINDING: property=%s %s" % (prop, k["what"]))
    paths = []
    for tag, ops, note in real[:5]:
        p = vlib.write_replay(prop, "%s-%d-%s" % (tier, seed, tag), ops, note)
        paths.append(p)
    cov["evaluations"] = cov["cases_replayed"] + cov["events_validated"]
    cov["distinct_nontrivial"] = cov["cases_replayed"] + len(distinct)
    cov["outcome_histogram"] = outcomes
    cov["violations_found"] = len(real)
    cov["known_findings_hit"] = sorted(seen)
    if not cov["samples"]:
        cov["samples"] = [{"note": "no cases"}]
    cov["explanation"] = rc.get("explanation", "")
    vlib.write_evidence(prop, tier, seed, rc.get("level", "model_checking"), cov, time.time() - t0, len(real),
                        rc.get("assumptions", []))
    log("%s %s: states=%d cases_replayed=%d events_validated=%d violations=%d wall=%.1fs" %
        (prop, tier, cov["states"], cov["cases_replayed"], cov["events_validated"], len(real), time.time() - t0))
    for p in paths:
        vlib.violation(prop, p)
    return 1 if real else 0
