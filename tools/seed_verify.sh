#!/bin/sh
# usage: seed_verify.sh Cxx [tier]  -- verifies a sub-agent's seeded change in /tmp/seed_Cxx + /tmp/seed_out_Cxx,
# stores it under /verif/seeded/Cxx/, runs the property's check against it, writes meta.json, removes the worktree.
id=$1; tier=${2:-quick}; rnd=${ROUND:-}; wt=/tmp/seed${rnd}_$id; out=/tmp/seed${rnd}_out_$id; dst=/verif/seeded/$id${rnd:+-r$rnd}
[ -f $out/patch.diff ] || { echo "no patch for $id"; exit 2; }
mkdir -p $dst; cp $out/patch.diff $out/notes.md $dst/ 2>/dev/null; cp $out/demo.rs $dst/ 2>/dev/null || cp $wt/tests/demo.rs $dst/
cd $wt || exit 2
git checkout -q -- src 2>/dev/null; git apply $dst/patch.diff || { echo "patch does not apply"; exit 2; }
mkdir -p tests; cp $dst/demo.rs tests/demo.rs
b1=$(cargo build --offline 2>&1 | tail -1); b2=$(cargo check --offline --no-default-features 2>&1 | tail -1)
suite=$(cargo test --offline 2>&1 | grep "test result" | tr '\n' ' ')
demo_with=$(cargo test --offline --test demo 2>&1 | grep "test result" | tr '\n' ' ')
git apply -R $dst/patch.diff
demo_without=$(cargo test --offline --test demo 2>&1 | grep "test result" | tr '\n' ' ')
git apply $dst/patch.diff
echo "build: $b1 | no-default: $b2"; echo "suite(with): $suite"; echo "demo(with): $demo_with"; echo "demo(without): $demo_without"
cd /verif
full=$(/verif/tools/mutant_test.sh $dst/patch.diff $id $tier 2>&1)
chk=$(echo "$full" | grep -E "MUTANT-RESULT|TOOL-ERROR" | tr '\n' ' '; echo "$full" | grep -E "VIOLATION|KNOWN" | head -2 | tr '\n' ' ')
echo "check: $chk"
python3 - "$id" "$suite" "$demo_with" "$demo_without" "$chk" "$tier" "$dst" <<'PY'
import json,sys,os
id,suite,dw,dwo,chk,tier,dst=sys.argv[1:8]
notes=open(dst+'/notes.md').read() if os.path.exists(dst+'/notes.md') else ''
meta={"property":id,"source":"independent sub-agent given only the property text and a scratch worktree",
      "needs_to_manifest":notes[:1500],
      "verified":{"suite_with_patch":suite,"demo_with_patch":dw,"demo_without_patch":dwo},
      "check_run":"tools/mutant_test.sh %s/patch.diff %s %s"%(dst,id,tier),"check_result":chk,
      "detected":"exit=1" in chk}
json.dump(meta,open(dst+'/meta.json','w'),indent=1)
print("detected:",meta["detected"])
PY
git -C /repo worktree remove --force $wt; rm -rf $out
