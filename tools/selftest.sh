#!/bin/sh
# Self-test of the machinery (not registered as a check; takes ~15-40 min depending on the mutant list):
#  1. every negative control of spec/Stream.tla must violate its invariant;
#  2. an accepted trace with result fields flipped / an event deleted must be rejected by TLC at exactly those lines;
#  3. every patch under mutants/ (or the ones given as arguments, as name:PROP) must make its property's check exit 1,
#     and the unchanged tree must make it exit 0.
cd /verif || exit 2
fail=0
echo "== 1. negative controls"
for v in insert_before_read key_by_start no_seek read_not_exact no_length_guard eager_read lazy_seek; do
  out=$(cd spec && JAVA_TOOL_OPTIONS=-Xss1g timeout 600 tlc -workers 4 -metadir /verif/work/selfneg -cleanup -noGenerateSpecTE -config NEG_Stream_$v.cfg MC_Stream.tla 2>&1)
  if echo "$out" | grep -q "is violated"; then echo "  NEG_Stream_$v: rejected (good)"; else echo "  NEG_Stream_$v: NOT rejected"; fail=1; fi
done
echo "== 2. corrupted trace"
python3 - <<'PY' || fail=1
import json, random, subprocess, sys, os
sys.path.insert(0, '/verif/tools')
import vlib
vlib.build_harness()
t = '/verif/work/selftest.elf.ndjson'
vlib.harness(['gen', 'elf', 77, 6, t])
L = vlib.read_lines(t)
random.seed(5)
marks = []
out = []
for i, l in enumerate(L):
    e = json.loads(l)
    if e.get('op') == 'q' and e['res'].get('out') == 'ok' and random.random() < 0.04:
        r = e['res']
        if 'data' in r: r['data']['len'] += 1
        elif 'f' in r: r['f']['sh_size'][0] ^= 1
        elif 'items' in r: r['n'] += 1
        elif 'sym' in r: r['sym']['n'][0] ^= 1
        elif 'tbl' in r: r['tbl']['n'][0] ^= 1
        else: out.append(l); continue
        marks.append(i + 1)
        l = json.dumps(e)
    out.append(l)
bad = t.replace('.ndjson', '.bad.ndjson')
open(bad, 'w').write('\n'.join(out) + '\n')
r = vlib.validate_trace(bad)
got = sorted(m[0] for m in r['mismatches'])
print('  flipped lines', marks, '\n  rejected     ', got)
sys.exit(0 if got == marks and marks else 1)
PY
echo "== 3. code mutants"
list="$*"
[ -z "$list" ] && list="c04_cursor_moves_on_error:C04 c02_dtag_no_sign_ext:C02 c09_len_rounds_up:C09 c15_missing_nul_last:C15 c10_le_accepts_any:C10 c03_clamp_range:C03 c05_shnum_from_sh_info:C05 c07_single_read:C07 c08_eager_read:C08 c13_aux_offset_absolute:C13 c14_nhdr_by_class:C14 c16_next_zero_continues:C16 c17_swallow_read_error:C17 c20_by_name_prefix:C20 c12_hash_no_fold:C12 c06_std_vec_in_section_data:C06 c01_gnu_unchecked_shr:C01 c19_ppc64_reloc_typo:C19 c03_clamp_range:C18"
for spec in $list; do
  name=${spec%%:*}; prop=${spec##*:}
  r=$(tools/mutant_test.sh mutants/$name.diff $prop quick 2>&1 | grep -E "MUTANT-RESULT" )
  echo "  $r"
  echo "$r" | grep -q "exit=1" || fail=1
done
python3 -c "import sys; sys.path.insert(0,'/verif/tools'); import vlib; vlib.build_harness()"
[ $fail = 0 ] && echo "SELFTEST OK" || echo "SELFTEST FAILED"
exit $fail
