#!/bin/sh
# validate one trace file against spec/Trace.tla; prints TLC output filtered
f=$(readlink -f "$1"); md=$(mktemp -d /verif/work/tlcmeta.XXXXXX)
JAVA_TOOL_OPTIONS="-Xss1g -Dtlc2.tool.queue.IStateQueue=StateDeque" TRACE="$f" timeout ${TV_TIMEOUT:-600} tlc -workers 1 -metadir "$md" -cleanup -noGenerateSpecTE -config /verif/spec/Trace.cfg /verif/spec/Trace.tla 2>&1 | grep -vE "^(Picked|Parsing|Semantic|Starting|Implied|Progress|Computing|Finished comp|Linting|Running|TLC2)"
rm -rf "$md"
