"""Shared driver code for the rust-elf TLA+ model-based checks.

exit codes: 0 property held on everything explored; 1 violation (with a VIOLATION line and a
replay file); 2 tool error (build failure, TLC evaluation error, spec-level invariant failure,
timeout of the tooling) -- never reported as a violation.
"""
import fcntl
import json
import os
import re
import shutil
import subprocess
import sys
import tempfile
import time
from concurrent.futures import ThreadPoolExecutor

VERIF = os.path.dirname(os.path.dirname(os.path.abspath(__file__)))
SPEC = os.path.join(VERIF, "spec")
HARNESS_DIR = os.path.join(VERIF, "harness")
WORK = os.path.join(VERIF, "work")
REPLAY = os.path.join(VERIF, "replay")
EVID = os.path.join(VERIF, "evidence")
REPO = os.environ.get("VERIF_REPO", "/repo")
HARNESS = os.path.join(HARNESS_DIR, "target", "release", "elf-verif-harness")
NCPU = os.cpu_count() or 4
TLC_JAR = "/opt/veriftools/tla/tla2tools.jar:/opt/veriftools/tla/CommunityModules-deps.jar"


class ToolError(Exception):
    pass


def log(*a):
    print(*a, flush=True)


def tool_error(msg):
    log("TOOL-ERROR: " + msg)
    sys.exit(2)


def ensure_dirs():
    for d in (WORK, REPLAY, EVID):
        os.makedirs(d, exist_ok=True)


def build_harness():
    """(Re)build the harness against the repository's current working tree."""
    ensure_dirs()
    lock = open(os.path.join(WORK, ".build.lock"), "w")
    fcntl.flock(lock, fcntl.LOCK_EX)
    try:
        tmpl = open(os.path.join(HARNESS_DIR, "Cargo.toml.in")).read().replace("@REPO@", REPO)
        ct = os.path.join(HARNESS_DIR, "Cargo.toml")
        if not os.path.exists(ct) or open(ct).read() != tmpl:
            open(ct, "w").write(tmpl)
        cl = os.path.join(HARNESS_DIR, "Cargo.lock")
        if not os.path.exists(cl):
            shutil.copy(os.path.join(REPO, "Cargo.lock"), cl)
        env = dict(os.environ, CARGO_NET_OFFLINE="true", RUST_BACKTRACE="0")
        t0 = time.time()
        p = subprocess.run(["cargo", "build", "--release", "--offline"], cwd=HARNESS_DIR, env=env,
                           stdout=subprocess.PIPE, stderr=subprocess.STDOUT, text=True)
        if p.returncode != 0:
            log(p.stdout[-3000:])
            raise ToolError("harness build failed (the repository under test may not compile)")
        return time.time() - t0
    finally:
        fcntl.flock(lock, fcntl.LOCK_UN)
        lock.close()


WATCHDOG_RERUNS = []       # watchdog kills that were looked at twice: (args, first record, outcome of the second run)


def died_record(out_path):
    """The record the harness left when it was taken down (None when it ran to the end)."""
    p = out_path + ".died"
    if not os.path.exists(p) or os.path.getsize(p) == 0:
        return None
    last = [x for x in read_lines(p) if x.strip()][-1:]
    try:
        o = json.loads(last[0]) if last else {}
    except ValueError:
        o = {}
    return o if o.get("op") == "died" else {"op": "died", "why": "unknown"}


def _harness_once(args, timeout, env):
    p = subprocess.run([HARNESS] + [str(a) for a in args], stdout=subprocess.PIPE, stderr=subprocess.PIPE,
                       text=True, timeout=timeout, env=env)
    if p.returncode != 0:
        raise ToolError("harness %s exited %d: %s" % (args[:2], p.returncode, p.stderr[-2000:]))
    last = [x for x in p.stdout.strip().split("\n") if x.strip()]
    return json.loads(last[-1]) if last else {}


def harness(args, timeout=3600, env_extra=None):
    """Run the harness.  A kill by the CPU-time watchdog says "this call did not return within its budget"; the
    clock it reads also advances while the machine itself stalls the thread (first touch of memory after a
    snapshot restore, a dozen JVMs started next to it).  A call that really does not return does so every time,
    so the identical run (same seed, same budget) is made once more and its outcome is the one that counts:
    a second kill is reported, a run that completes is used as the trace.  Every other way of dying (abort,
    stack overflow, oversized allocation) is deterministic and reported at once."""
    env = dict(os.environ, RUST_BACKTRACE="0")
    if env_extra:
        env.update(env_extra)
    r = _harness_once(args, timeout, env)
    out = str(args[4] if args[0] == "gen" else args[2])
    d = died_record(out)
    if d is not None and d.get("why") == "timeout" and os.environ.get("VERIF_WATCHDOG_RERUN", "1") != "0":
        shutil.copy(out + ".died", out + ".died.first")
        log("note: watchdog kill in harness %s (%s); repeating the identical run once"
            % (" ".join(str(a) for a in args[:3]), {k: d[k] for k in d if k not in ("op", "why")}))
        r = _harness_once(args, timeout, env)
        d2 = died_record(out)
        WATCHDOG_RERUNS.append({"run": [os.path.basename(str(a)) for a in args[:4]], "first": d,
                                "second": "completed" if d2 is None else d2})
    return r


# ----------------------------------------------------------------------------- TLC

def _tlc(cfg, module, workers, env_extra=None, timeout=3600, java_opts="-Xss1g", extra=None, heap=None):
    md = tempfile.mkdtemp(prefix="tlcmeta.", dir=WORK)
    env = dict(os.environ)
    env["JAVA_TOOL_OPTIONS"] = java_opts
    if env_extra:
        env.update(env_extra)
    cmd = ["java", "-XX:+UseParallelGC", "-Djava.io.tmpdir=" + md]      # TLC's scratch directory goes away with md
    if heap:
        cmd.append("-Xmx" + heap)
    cmd += ["-cp", TLC_JAR, "tlc2.TLC", "-workers", str(workers), "-metadir", md, "-cleanup",
            "-noGenerateSpecTE"] + (extra or []) + ["-config", cfg, module]
    try:
        p = subprocess.run(cmd, cwd=SPEC, env=env, stdout=subprocess.PIPE, stderr=subprocess.STDOUT, text=True,
                           timeout=timeout)
        out = p.stdout
        rc = p.returncode
    except subprocess.TimeoutExpired as e:
        out = (e.stdout or b"").decode() if isinstance(e.stdout, bytes) else (e.stdout or "")
        rc = -9
    finally:
        shutil.rmtree(md, ignore_errors=True)
    return rc, out


STATS_RE = re.compile(r"(\d+) states generated, (\d+) distinct states found")


def run_mc(name, cfg=None, workers=8, timeout=3600, cases_out=None, coverage=False):
    """Model-check spec/<name>.tla with spec/<cfg>.cfg.  Emitted cases (JSON strings printed by the
    spec) are collected into cases_out.  A violated invariant or an evaluation error of the SPEC is a
    tool error: it says the model is wrong, not the implementation."""
    cfg = cfg or name
    t0 = time.time()
    extra = ["-coverage", "1"] if coverage else []
    rc, out = _tlc(os.path.join(SPEC, cfg + ".cfg"), os.path.join(SPEC, name + ".tla"), workers,
                   timeout=timeout, extra=extra)
    ncases = 0
    neg = 0
    if cases_out:
        with open(cases_out, "w") as f:
            for line in out.split("\n"):
                if line.startswith('"{'):
                    try:
                        inner = json.loads(line)
                        if inner.startswith('{"ops":'):          # one emitted behaviour = a session of operations
                            for o in json.loads(inner)["ops"]:
                                f.write(json.dumps(o) + "\n")
                        else:
                            f.write(inner + "\n")
                        ncases += 1
                    except Exception:
                        pass
    m = STATS_RE.search(out)
    ok = "Model checking completed. No error has been found." in out
    info = {"module": name, "cfg": cfg, "ok": ok, "rc": rc, "wall_s": round(time.time() - t0, 2),
            "states_generated": int(m.group(1)) if m else 0, "distinct_states": int(m.group(2)) if m else 0,
            "cases": ncases}
    dm = re.search(r"depth of the complete state graph search is (\d+)", out)
    if dm:
        info["depth"] = int(dm.group(1))
    if not ok:
        tail = "\n".join([l for l in out.split("\n") if not l.startswith('"{')][-40:])
        info["tail"] = tail
    info["raw_tail"] = "\n".join([l for l in out.split("\n") if not l.startswith('"{')][-12:])
    return info


def require_mc_ok(info):
    if not info["ok"]:
        log(info.get("tail", ""))
        raise ToolError("model checking of %s/%s did not complete cleanly (spec-level failure)" %
                        (info["module"], info["cfg"]))


def expect_mc_violation(name, cfg, workers=4, timeout=600):
    """Negative control: a deliberately broken spec variant must violate its invariant."""
    rc, out = _tlc(os.path.join(SPEC, cfg + ".cfg"), os.path.join(SPEC, name + ".tla"), workers, timeout=timeout)
    return ("is violated" in out) or ("Invariant" in out and "violated" in out)


MISMATCH_RE = re.compile(r'<<"MISMATCH", (\d+), "([a-z_]+)", "([^"]*)">>')


def validate_trace(path, timeout=1800, module="Trace", cfg="Trace"):
    """Judge a recorded trace with TLC.  Returns dict(consumed, events, mismatches=[(line, reason)])."""
    t0 = time.time()
    rc, out = _tlc(os.path.join(SPEC, cfg + ".cfg"), os.path.join(SPEC, module + ".tla"), 1,
                   env_extra={"TRACE": os.path.abspath(path)}, timeout=timeout,
                   java_opts="-Xss1g -Dtlc2.tool.queue.IStateQueue=StateDeque", heap="4g")
    mism = [(int(a), b, c) for a, b, c in MISMATCH_RE.findall(out)]
    cons = re.search(r'"TRACE-CONSUMED", (\d+)', out)
    m = STATS_RE.search(out)
    res = {"path": path, "consumed": bool(cons), "events": int(cons.group(1)) if cons else 0,
           "mismatches": mism, "wall_s": round(time.time() - t0, 2),
           "states": int(m.group(2)) if m else 0, "transitions": int(m.group(1)) if m else 0}
    if not cons:
        res["tail"] = "\n".join(out.split("\n")[-30:])
    return res


# ----------------------------------------------------------------------------- sessions / replay files

def read_lines(path):
    with open(path) as f:
        return [l.rstrip("\n") for l in f if l.strip()]


def session_around(lines, lineno):
    """Lines of the session containing 1-based trace line `lineno` (from its `session` event up to
    and including the event), re-expressed as operations (results stripped)."""
    start = lineno - 1
    while start > 0 and '"op":"session"' not in lines[start]:
        start -= 1
    ops = []
    for l in lines[start:lineno]:
        e = json.loads(l)
        for k in ("res", "allocs", "maxalloc", "io"):
            e.pop(k, None)
        ops.append(e)
    return ops


def events_to_ops(evs):
    """Invert the executor's multi-event expansion (tbl_new + steps -> one tbl op)."""
    ops = []
    cur = None
    for e in evs:
        op = e.get("op", "")
        if op == "tbl_new":
            cur = dict(e)
            cur["op"] = "tbl"
            cur["script"] = []
            ops.append(cur)
        elif op.startswith("tbl_") and cur is not None:
            what = op[4:]
            cur["script"].append([what, e["arg"]] if what == "get" else
                                 [what, e["arg"], e.get("src", "iter")] if what == "walk" else [what])
        else:
            cur = None if not op.startswith("tbl_") else cur
            ops.append(e)
    return ops


def write_replay(prop, tag, ops, note=None):
    ensure_dirs()
    path = os.path.join(REPLAY, "%s-%s.ndjson" % (prop, tag))
    with open(path, "w") as f:
        for o in ops:
            f.write(json.dumps(o) + "\n")
        if note:
            f.write(json.dumps({"op": "note", "note": note}) + "\n")
    return path


def violation(prop, path):
    log("VIOLATION property=%s replay=%s" % (prop, path))


# ----------------------------------------------------------------------------- evidence

def write_evidence(prop, tier, seed, level, coverage, wall, violations, assumptions=None):
    ensure_dirs()
    if WATCHDOG_RERUNS and isinstance(coverage, dict):
        coverage["watchdog_kills_looked_at_twice"] = list(WATCHDOG_RERUNS)
    ev = {"property_id": prop, "tier": tier, "seed": int(seed), "level": level, "coverage": coverage,
          "assumptions": assumptions or [], "wall_s": round(wall, 2), "violations": int(violations)}
    tmp = os.path.join(EVID, prop + ".json.tmp")
    with open(tmp, "w") as f:
        json.dump(ev, f, indent=1)
    os.replace(tmp, os.path.join(EVID, prop + ".json"))


def known_findings():
    p = os.path.join(VERIF, "known_findings.json")
    if os.path.exists(p):
        return json.load(open(p))
    return {"open": [], "fixed": []}


def pmap(fn, items, workers=None):
    with ThreadPoolExecutor(max_workers=workers or min(NCPU, 12)) as ex:
        return list(ex.map(fn, items))
