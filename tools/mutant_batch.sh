#!/bin/sh
# usage: mutant_batch.sh <name:PROP> ...   runs each mutant against its property's quick check; summary to stdout
for spec in "$@"; do
  name=${spec%%:*}; prop=${spec##*:}
  /verif/tools/mutant_test.sh /verif/mutants/$name.diff $prop quick 2>&1 | grep -E "MUTANT-RESULT|MUTANT-SUITE|TOOL-ERROR|PATCH-FAILED"
done
# rebuild harness against /repo
cd /verif && python3 -c "import sys; sys.path.insert(0,'tools'); import vlib; vlib.build_harness()"
