//! Totality of the remaining public surface that no listed property talks about: ParseError's Display / Debug /
//! source(), the human-readable to_str helpers.  Only "does not panic, does not allocate" is observed.
use crate::alloc::measured;
use crate::exec::{event, panic_res};
use core::fmt::Write;
use elf::ParseError;
use serde_json::{json, Value};

struct StackBuf { b: [u8; 512], n: usize }
impl Write for StackBuf {
    fn write_str(&mut self, s: &str) -> core::fmt::Result {
        for c in s.bytes() { if self.n < self.b.len() { self.b[self.n] = c; self.n += 1; } }
        Ok(())
    }
}

pub fn misc(op: &Value) -> Value {
    let v = op["v"].as_u64().unwrap_or(0);
    let (r, a, m) = measured(|| {
        let utf8 = core::str::from_utf8(&[0xffu8, 0xfe]).unwrap_err();
        let tfs: Result<[u8; 4], core::array::TryFromSliceError> = <[u8; 4]>::try_from(&[1u8, 2][..]);
        let tfi: Result<u8, core::num::TryFromIntError> = u8::try_from(300u32);
        let errs = [
            ParseError::BadMagic([v as u8, 1, 2, 3]),
            ParseError::UnsupportedElfClass(v as u8),
            ParseError::UnsupportedElfEndianness(v as u8),
            ParseError::UnsupportedVersion((v, 1)),
            ParseError::BadOffset(v),
            ParseError::StringTableMissingNul(v),
            ParseError::BadEntsize((v, 24)),
            ParseError::UnexpectedSectionType((v as u32, 3)),
            ParseError::UnexpectedSegmentType((v as u32, 4)),
            ParseError::UnexpectedAlignment(v as usize),
            ParseError::SliceReadError((v as usize, v.wrapping_add(4) as usize)),
            ParseError::IntegerOverflow,
            ParseError::Utf8Error(utf8),
            ParseError::TryFromSliceError(tfs.unwrap_err()),
            ParseError::TryFromIntError(tfi.unwrap_err()),
        ];
        let mut total = 0usize;
        for e in errs.iter() {
            let mut w = StackBuf { b: [0; 512], n: 0 };
            let _ = write!(w, "{e}");
            total += w.n;
            let mut w = StackBuf { b: [0; 512], n: 0 };
            let _ = write!(w, "{e:?}");
            total += w.n;
            let src = std::error::Error::source(e);
            total += src.is_some() as usize;
        }
        // human-readable helpers over their domains
        total += elf::to_str::e_type_to_human_str(v as u16).map(|s| s.len()).unwrap_or(0);
        total += elf::to_str::e_machine_to_human_str(v as u16).map(|s| s.len()).unwrap_or(0);
        total += elf::to_str::note_abi_tag_os_to_str(v as u32).map(|s| s.len()).unwrap_or(0);
        total
    });
    event(op, match r { Ok(n) => json!({"out":"ok","n":n}), Err(p) => panic_res(&p) }, a, m)
}
