//! Structured ELF file builder and the whole-file generator families.  Written from the gABI; it
//! decides only what bytes to hand to the parser and which calls to make.
use crate::exec::Exec;
use crate::gen2::*;
use crate::proj::*;
use crate::rng::Rng;
use crate::Sink;
use serde_json::{json, Value};

pub const SHT_PROGBITS: u32 = 1;
pub const SHT_SYMTAB: u32 = 2;
pub const SHT_STRTAB: u32 = 3;
pub const SHT_RELA: u32 = 4;
pub const SHT_HASH: u32 = 5;
pub const SHT_DYNAMIC: u32 = 6;
pub const SHT_NOTE: u32 = 7;
pub const SHT_NOBITS: u32 = 8;
pub const SHT_REL: u32 = 9;
pub const SHT_DYNSYM: u32 = 11;
pub const SHT_GNU_HASH: u32 = 0x6ffffff6;
pub const SHT_GNU_VERDEF: u32 = 0x6ffffffd;
pub const SHT_GNU_VERNEED: u32 = 0x6ffffffe;
pub const SHT_GNU_VERSYM: u32 = 0x6fffffff;
pub const SHF_COMPRESSED: u64 = 0x800;

#[derive(Clone, Default)]
pub struct Sec {
    pub name: Vec<u8>,
    pub ty: u32,
    pub flags: u64,
    pub addr: u64,
    pub data: Vec<u8>,
    pub link: u32,
    pub info: u32,
    pub align: u64,
    pub entsize: u64,
    pub nobits: Option<u64>,
    pub off: u64,
}
#[derive(Clone, Default)]
pub struct Seg {
    pub ty: u32,
    pub flags: u32,
    pub sec: Option<usize>,
    pub off: u64,
    pub filesz: u64,
    pub memsz: u64,
    pub align: u64,
    pub vaddr: u64,
}
#[derive(Clone, Default)]
pub struct ElfSpec {
    pub class: u64,
    pub little: bool,
    pub secs: Vec<Sec>,
    pub segs: Vec<Seg>,
    pub shstrndx: usize,
    pub tables_early: bool,
    pub have_shdrs: bool,
    pub have_phdrs: bool,
    pub ext_shnum: bool,
    pub ext_phnum: bool,
    pub ext_shstrndx: bool,
    pub overlap: bool,
    pub gap: usize,
    pub e_type: u64,
    pub e_machine: u64,
    pub e_flags: u64,
}
#[derive(Clone, Default)]
pub struct Built {
    /// > 0: typed views (notes / relocations / string tables) are only asked for ranges up to this size - a
    /// megabyte of zeros read as notes is tens of thousands of records that judge nothing new
    pub cap_views: u64,
    pub bytes: Vec<u8>,
    pub fields: Vec<(usize, usize, String)>,
    pub sec_names: Vec<Vec<u8>>,
    pub sym_names: Vec<Vec<u8>>,
    pub nversym: usize,
}

fn ehsize(class: u64) -> usize { if class == 32 { 52 } else { 64 } }
fn shentsize(class: u64) -> usize { if class == 32 { 40 } else { 64 } }
fn phentsize(class: u64) -> usize { if class == 32 { 32 } else { 56 } }

struct W<'a> { v: &'a mut Vec<u8>, little: bool, fields: &'a mut Vec<(usize, usize, String)>, base: usize }
impl<'a> W<'a> {
    fn f(&mut self, label: &str, val: u64, w: usize) {
        self.fields.push((self.base + self.v.len(), w, label.to_string()));
        put(self.v, val, w, self.little);
    }
}

pub fn enc_shdr(s: &Sec, name_off: u32, size: u64, class: u64, little: bool, base: usize, fields: &mut Vec<(usize, usize, String)>, tag: &str) -> Vec<u8> {
    let mut v = Vec::new();
    let a = if class == 32 { 4 } else { 8 };
    let mut w = W { v: &mut v, little, fields, base };
    w.f(&format!("{tag}.sh_name"), name_off as u64, 4);
    w.f(&format!("{tag}.sh_type"), s.ty as u64, 4);
    w.f(&format!("{tag}.sh_flags"), s.flags, a);
    w.f(&format!("{tag}.sh_addr"), s.addr, a);
    w.f(&format!("{tag}.sh_offset"), s.off, a);
    w.f(&format!("{tag}.sh_size"), size, a);
    w.f(&format!("{tag}.sh_link"), s.link as u64, 4);
    w.f(&format!("{tag}.sh_info"), s.info as u64, 4);
    w.f(&format!("{tag}.sh_addralign"), s.align, a);
    w.f(&format!("{tag}.sh_entsize"), s.entsize, a);
    v
}

pub fn enc_phdr(p: &Seg, class: u64, little: bool, base: usize, fields: &mut Vec<(usize, usize, String)>, tag: &str) -> Vec<u8> {
    let mut v = Vec::new();
    let mut w = W { v: &mut v, little, fields, base };
    if class == 32 {
        w.f(&format!("{tag}.p_type"), p.ty as u64, 4);
        w.f(&format!("{tag}.p_offset"), p.off, 4);
        w.f(&format!("{tag}.p_vaddr"), p.vaddr, 4);
        w.f(&format!("{tag}.p_paddr"), p.vaddr, 4);
        w.f(&format!("{tag}.p_filesz"), p.filesz, 4);
        w.f(&format!("{tag}.p_memsz"), p.memsz, 4);
        w.f(&format!("{tag}.p_flags"), p.flags as u64, 4);
        w.f(&format!("{tag}.p_align"), p.align, 4);
    } else {
        w.f(&format!("{tag}.p_type"), p.ty as u64, 4);
        w.f(&format!("{tag}.p_flags"), p.flags as u64, 4);
        w.f(&format!("{tag}.p_offset"), p.off, 8);
        w.f(&format!("{tag}.p_vaddr"), p.vaddr, 8);
        w.f(&format!("{tag}.p_paddr"), p.vaddr, 8);
        w.f(&format!("{tag}.p_filesz"), p.filesz, 8);
        w.f(&format!("{tag}.p_memsz"), p.memsz, 8);
        w.f(&format!("{tag}.p_align"), p.align, 8);
    }
    v
}

/// lay the object out and serialise it
pub fn layout(spec: &mut ElfSpec, r: &mut Rng) -> Built {
    let class = spec.class;
    let little = spec.little;
    let mut fields: Vec<(usize, usize, String)> = Vec::new();
    // section name string table content
    let mut shstr = vec![0u8];
    let mut name_offs = Vec::new();
    for s in &spec.secs {
        if s.name.is_empty() { name_offs.push(0u32); } else { name_offs.push(shstr.len() as u32); shstr.extend(&s.name); shstr.push(0); }
    }
    if spec.shstrndx < spec.secs.len() && spec.shstrndx > 0 { spec.secs[spec.shstrndx].data = shstr.clone(); }
    let nsec = spec.secs.len();
    let nseg = spec.segs.len();
    let mut pos = ehsize(class);
    let mut phoff = 0usize;
    let mut shoff = 0usize;
    if spec.have_phdrs { phoff = pos; pos += nseg * phentsize(class); }
    if spec.have_shdrs && spec.tables_early { shoff = pos; pos += nsec * shentsize(class); }
    let mut prev_off = pos;
    for i in 1..nsec {
        if spec.secs[i].nobits.is_some() { spec.secs[i].off = pos as u64; continue; }
        if spec.secs[i].ty == 0 && spec.secs[i].data.is_empty() { spec.secs[i].off = 0; continue; }
        if spec.overlap && i > 1 && r.chance(1, 5) {
            spec.secs[i].off = prev_off as u64;           // overlaps the previous section
            pos = pos.max(prev_off + spec.secs[i].data.len());
            continue;
        }
        pos += spec.gap;
        let al = spec.secs[i].align.clamp(1, 16) as usize;
        while pos % al != 0 { pos += 1; }
        spec.secs[i].off = pos as u64;
        prev_off = pos;
        pos += spec.secs[i].data.len();
    }
    if spec.have_shdrs && !spec.tables_early { while pos % 8 != 0 { pos += 1; } shoff = pos; pos += nsec * shentsize(class); }
    for g in spec.segs.iter_mut() {
        if g.sec.is_none() && g.off == u64::MAX {
            let si = g.memsz as usize;
            g.off = spec.secs[si].off;
            g.memsz = g.filesz;
        }
        if let Some(si) = g.sec {
            g.off = spec.secs[si].off;
            g.filesz = if spec.secs[si].nobits.is_some() { 0 } else { spec.secs[si].data.len() as u64 };
            g.memsz = g.filesz + g.memsz;       // memsz field held the extra amount
        }
    }
    let mut bytes = vec![0u8; pos];
    // e_ident + header
    let mut eh = vec![0x7f, b'E', b'L', b'F', if class == 32 { 1 } else { 2 }, if little { 1 } else { 2 }, 1,
        // EI_OSABI / EI_ABIVERSION: every defined OS ABI (0..18, 64, 97, 255) and arbitrary values - no property mentions them
        match r.below(4) { 0 => 0, 1 => r.below(19) as u8, 2 => *r.pick(&[6u8, 3, 9, 64, 97, 255]), _ => r.next() as u8 },
        if r.chance(1, 2) { 0 } else { r.next() as u8 }, 0, 0, 0, 0, 0, 0, 0];
    for (i, l) in ["ei_mag0", "ei_mag1", "ei_mag2", "ei_mag3", "ei_class", "ei_data", "ei_version", "ei_osabi", "ei_abiversion"].iter().enumerate() {
        fields.push((i, 1, l.to_string()));
    }
    {
        let a = if class == 32 { 4 } else { 8 };
        let mut w = W { v: &mut eh, little, fields: &mut fields, base: 0 };
        w.f("e_type", spec.e_type, 2);
        w.f("e_machine", spec.e_machine, 2);
        // (more fields no property mentions: the header's own version word, the entry point, e_ehsize)
        w.f("e_version", if spec.e_flags % 5 == 1 { *r.pick(&[0u64, 2, 0xffff_ffff]) } else { 1 }, 4);
        w.f("e_entry", if spec.e_flags % 3 == 1 { r.edge64() } else { 0x1000 }, a);
        w.f("e_phoff", phoff as u64, a);
        w.f("e_shoff", shoff as u64, a);
        w.f("e_flags", spec.e_flags, 4);
        w.f("e_ehsize", if spec.e_flags % 7 == 1 { *r.pick(&[0u64, 1, 52, 64, 65, 0xffff]) } else { ehsize(class) as u64 }, 2);
        w.f("e_phentsize", if spec.have_phdrs { phentsize(class) as u64 } else { 0 }, 2);
        let phnum = if !spec.have_phdrs { 0 } else if spec.ext_phnum { 0xffff } else { nseg as u64 };
        w.f("e_phnum", phnum, 2);
        w.f("e_shentsize", if spec.have_shdrs { shentsize(class) as u64 } else { 0 }, 2);
        let shnum = if !spec.have_shdrs || spec.ext_shnum { 0 } else { nsec as u64 };
        w.f("e_shnum", shnum, 2);
        let ndx = if !spec.have_shdrs { 0 } else if spec.ext_shstrndx { 0xffff } else { spec.shstrndx as u64 };
        w.f("e_shstrndx", ndx, 2);
    }
    bytes[..eh.len()].copy_from_slice(&eh);
    if spec.have_phdrs {
        for (i, g) in spec.segs.iter().enumerate() {
            let o = phoff + i * phentsize(class);
            let e = enc_phdr(g, class, little, o, &mut fields, &format!("ph{i}"));
            bytes[o..o + e.len()].copy_from_slice(&e);
        }
    }
    for i in 1..nsec {
        if spec.secs[i].nobits.is_none() {
            let o = spec.secs[i].off as usize;
            let d = spec.secs[i].data.clone();
            bytes[o..o + d.len()].copy_from_slice(&d);
        }
    }
    if spec.have_shdrs {
        for i in 0..nsec {
            let o = shoff + i * shentsize(class);
            let mut s = spec.secs[i].clone();
            let mut size = s.nobits.unwrap_or(s.data.len() as u64);
            if i == 0 {
                // extended numbering lives in shdr[0]
                if spec.ext_shnum { size = nsec as u64; }
                if spec.ext_phnum { s.info = nseg as u32; }
                if spec.ext_shstrndx { s.link = spec.shstrndx as u32; }
            }
            let e = enc_shdr(&s, name_offs[i], size, class, little, o, &mut fields, &format!("sh{i}"));
            bytes[o..o + e.len()].copy_from_slice(&e);
        }
    }
    Built { cap_views: 0, bytes, fields, sec_names: spec.secs.iter().map(|s| s.name.clone()).collect(), sym_names: vec![], nversym: 0 }
}

pub fn notes_bytes(r: &mut Rng, little: bool, lay: usize, cnt: u64) -> Vec<u8> {
    notes_bytes_cuts(r, little, lay, cnt).0
}

/// ... and the offsets at which each note ends
pub fn notes_bytes_cuts(r: &mut Rng, little: bool, lay: usize, cnt: u64) -> (Vec<u8>, Vec<usize>) {
    let mut buf = Vec::new();
    let mut cuts = Vec::new();
    for _ in 0..cnt {
        let (name, ntype, desc): (Vec<u8>, u64, Vec<u8>) = match r.below(5) {
            0 => (b"GNU\0".to_vec(), 1, r.bytes(16)),
            1 => (b"GNU\0".to_vec(), 3, { let k = r.below(24) as usize; r.bytes(k) }),
            _ => { let mut nm = gen_name(r); nm.push(0); (nm, r.below(8), { let k = r.below(20) as usize; r.bytes(k) }) }
        };
        put(&mut buf, name.len() as u64, 4, little);
        put(&mut buf, desc.len() as u64, 4, little);
        put(&mut buf, ntype, 4, little);
        buf.extend(&name);
        while lay > 0 && buf.len() % lay != 0 { buf.push(0); }
        buf.extend(&desc);
        while lay > 0 && buf.len() % lay != 0 { buf.push(0); }
        cuts.push(buf.len());
    }
    (buf, cuts)
}

fn sec(name: &[u8], ty: u32, data: Vec<u8>) -> Sec {
    Sec { name: name.to_vec(), ty, data, align: 1, ..Default::default() }
}

/// a random, well-formed object exercising every section kind the crate understands
pub fn random_elf(r: &mut Rng, rich: bool) -> (ElfSpec, Built) {
    let class = *r.pick(&[32u64, 64]);
    let little = r.chance(1, 2);
    let mut sp = ElfSpec { class, little, have_shdrs: r.chance(9, 10), have_phdrs: r.chance(4, 5), tables_early: r.chance(1, 2),
        ext_shnum: r.chance(1, 8), ext_phnum: r.chance(1, 8), ext_shstrndx: r.chance(1, 8), overlap: r.chance(1, 4),
        gap: if r.chance(1, 4) { r.below(24) as usize } else { 0 }, ..Default::default() };
    // fields no property mentions still vary: code that branches on the kind of object, the machine or its flags
    // must give the same answers
    sp.e_type = *r.pick(&[3u64, 3, 2, 1, 4, 4, 0, 0xfe00, 0xff00, 0xffff]);
    sp.e_machine = match r.below(4) {
        0 => if class == 32 { 3 } else { 62 },
        // every machine with a supplement that special-cases something (64-bit hash entries on Alpha / s390x, MIPS's
        // own section types, ...), and unknown ones
        1 => *r.pick(&[2u64, 3, 8, 15, 18, 20, 21, 22, 40, 43, 50, 62, 183, 243, 247, 258, 0x9026]),
        2 => r.below(260),
        _ => *r.pick(&[0u64, 1, 0xff, 0x100, 0x7fff, 0x8000, 0xfffe, 0xffff]),
    };
    sp.e_flags = if r.chance(1, 2) { 0 } else { r.edge64() & 0xffff_ffff };
    sp.secs.push(Sec::default());
    // ... and so do the fields of shdr[0] that carry nothing
    if r.chance(1, 6) {
        sp.secs[0].ty = *r.pick(&[1u32, 8, 0x7000_0000, 0xffff_ffff]);
        sp.secs[0].flags = *r.pick(&[0u64, 2, 0x800, u64::MAX]);
        sp.secs[0].align = *r.pick(&[0u64, 1, 8, u64::MAX]);
        sp.secs[0].entsize = *r.pick(&[0u64, 1, 24, u64::MAX]);
        // (its offset and size too, unless the size carries the extended section count: as a link target, shdr[0]
        //  designates a range like any other header)
        if !sp.ext_shnum { sp.secs[0].nobits = Some(*r.pick(&[1u64, 7, 16, 64])); sp.secs[0].off = *r.pick(&[0u64, 1, 16, 64]); }
    }
    let link_to_null = r.chance(1, 6);
    let symsz = if class == 32 { 16 } else { 24 };
    let dynsz = if class == 32 { 8 } else { 16 };
    let mut sym_names: Vec<Vec<u8>> = vec![];
    let mut nversym = 0usize;
    let want = |r: &mut Rng| if rich { r.chance(3, 4) } else { r.chance(1, 3) };
    // .text / .data / .bss
    if want(r) { let k = r.below(40) as usize; sp.secs.push(sec(b".text", SHT_PROGBITS, r.bytes(k))); }
    // contents that begin with a well-known magic number: data is data, whatever it looks like
    if r.chance(1, 3) {
        let magic: &[u8] = *r.pick(&[&b"ZLIB"[..], b"ZLIB\0\0\0\0\0\0\0\x20", b"\x7fELF", b"\x28\xb5\x2f\xfd", b"\x1f\x8b\x08", b"GNU\0", b"!<arch>\n", b"\x01\0\0\0", b"\0\0\0\x01"]);
        let mut d = magic.to_vec(); let k = r.below(30) as usize; d.extend(r.bytes(k));
        let name: &[u8] = *r.pick(&[&b".data"[..], b".debug_info", b".zdebug_info", b".rodata", b".comment"]);
        let mut s = sec(name, *r.pick(&[SHT_PROGBITS, SHT_PROGBITS, SHT_NOTE, SHT_STRTAB]), d);
        if r.chance(1, 4) { s.flags = *r.pick(&[2u64, 0x30, 0x800, 0x802]); }
        sp.secs.push(s);
    }
    if want(r) { let mut s = sec(b".bss", SHT_NOBITS, vec![]); s.nobits = Some(r.edge64()); sp.secs.push(s); }
    // dynamic symbols with both hash tables
    let have_dynsym = want(r);
    let mut dynsym_idx = 0usize;
    if have_dynsym {
        let n = r.range(1, 9) as usize;
        let mut names: Vec<Vec<u8>> = vec![vec![]];
        while names.len() < n { names.push(gen_name(r)); }
        let symoffset = r.range(1, n.min(2) as u64) as usize;
        let nbucket = r.range(1, 4) as u32;
        let nbloom = 1u32 << r.below(3);
        let shift = *r.pick(&[0u64, 5, 6, 31]) as u32;
        let (nn, gnu) = build_gnu(names, symoffset, nbucket, nbloom, shift, class, little);
        let names = nn;
        let sysv = build_sysv(&names, r.range(1, 4) as u32, little, r);
        let (symtab, strtab, _) = build_symtab(&names, class, little, r);
        sym_names = names.clone();
        let dynstr_i = sp.secs.len();
        sp.secs.push(sec(b".dynstr", SHT_STRTAB, strtab));
        dynsym_idx = sp.secs.len();
        let mut s = sec(b".dynsym", SHT_DYNSYM, symtab); s.link = dynstr_i as u32; s.entsize = symsz; s.info = 1; s.align = 8; sp.secs.push(s);
        if want(r) { let mut s = sec(b".hash", SHT_HASH, sysv); s.link = dynsym_idx as u32; s.entsize = *r.pick(&[4u64, 4, 4, 8, 0]); s.align = 4; sp.secs.push(s); }
        if want(r) { let mut s = sec(b".gnu.hash", SHT_GNU_HASH, gnu); s.link = dynsym_idx as u32; s.align = 8; sp.secs.push(s); }
        // symbol versions
        if want(r) {
            let mut m = gen_ver_model(r, false);
            m.versym.resize(names.len(), 1);
            for (i, v) in m.versym.iter_mut().enumerate() { if i == 0 { *v = 0; } }
            nversym = m.versym.len();
            let vb = enc_ver(&m, little, r.below(3), r);
            let vstr_i = sp.secs.len();
            sp.secs.push(sec(b".verstr", SHT_STRTAB, vb.strs));
            let mut s = sec(b".gnu.version", SHT_GNU_VERSYM, vb.versym); s.link = dynsym_idx as u32; s.entsize = 2; s.align = 2; sp.secs.push(s);
            if !m.needs.is_empty() || r.chance(1, 2) {
                let mut s = sec(b".gnu.version_r", SHT_GNU_VERNEED, vb.need); s.link = vstr_i as u32; s.info = m.needs.len() as u32; s.align = 4; sp.secs.push(s);
            }
            if !m.defs.is_empty() || r.chance(1, 2) {
                // sometimes the definitions name a string table of their own (same contents, rotated by a filler
                // string, so that an offset read in the wrong table gives another string)
                let mut dlink = vstr_i;
                if r.chance(1, 3) {
                    dlink = sp.secs.len();
                    let mut alt = b"\0pad_".to_vec(); alt.extend(&sp.secs[vstr_i].data);
                    sp.secs.push(sec(b".verstr2", SHT_STRTAB, alt));
                    // (the records keep their offsets: under the right table they now point 5 bytes earlier, i.e. to
                    //  other text; what the accessor must return is whatever THIS table holds at those offsets)
                }
                let vstr_i = dlink;
                let mut s = sec(b".gnu.version_d", SHT_GNU_VERDEF, vb.def); s.link = vstr_i as u32; s.info = m.defs.len() as u32; s.align = 4; sp.secs.push(s);
            }
        }
    }
    // static symbols
    if want(r) {
        let n = r.range(1, 6) as usize;
        let mut names: Vec<Vec<u8>> = vec![vec![]];
        while names.len() < n { names.push(gen_name(r)); }
        let (symtab, strtab, _) = build_symtab(&names, class, little, r);
        let stri = sp.secs.len();
        sp.secs.push(sec(b".strtab", SHT_STRTAB, strtab));
        let mut s = sec(b".symtab", SHT_SYMTAB, symtab); s.link = stri as u32; s.entsize = symsz; s.info = 1; s.align = 8; sp.secs.push(s);
    }
    // .dynamic (+ PT_DYNAMIC)
    let mut dyn_idx = None;
    if want(r) {
        let mut d = Vec::new();
        for _ in 0..r.below(5) { put(&mut d, r.below(40), dynsz as usize / 2, little); put(&mut d, r.edge64(), dynsz as usize / 2, little); }
        put(&mut d, 0, dynsz as usize / 2, little); put(&mut d, 0, dynsz as usize / 2, little);
        let mut s = sec(b".dynamic", SHT_DYNAMIC, d); s.entsize = dynsz; s.align = 8; s.link = dynsym_idx as u32;
        dyn_idx = Some(sp.secs.len());
        sp.secs.push(s);
    }
    // notes
    let mut note_idx = None;
    let mut note_cuts: Vec<usize> = Vec::new();
    if want(r) {
        let al = *r.pick(&[4u64, 8, 4, 1, 3, 12, 2, 16, 6]);
        let cnt = r.below(4);
        let (nb, cuts) = notes_bytes_cuts(r, little, al as usize, cnt);
        note_cuts = cuts;
        let mut s = sec(b".note.x", SHT_NOTE, nb); s.align = al;
        note_idx = Some(sp.secs.len());
        sp.secs.push(s);
    }
    // relocations
    if want(r) {
        let es = if class == 32 { 8 } else { 16 };
        let k = r.below(4) as usize * es + if r.chance(1, 4) { r.below(es as u64) as usize } else { 0 };
        let mut s = sec(b".rel.text", SHT_REL, r.bytes(k)); s.entsize = es as u64; s.align = 8; sp.secs.push(s);
    }
    if want(r) {
        let es = if class == 32 { 12 } else { 24 };
        let k = r.below(4) as usize * es;
        let mut s = sec(b".rela.text", SHT_RELA, r.bytes(k)); s.entsize = es as u64; s.align = 8; sp.secs.push(s);
    }
    // a compressed section
    if want(r) {
        let mut d = Vec::new();
        if class == 32 { put(&mut d, 1, 4, little); put(&mut d, 100, 4, little); put(&mut d, 4, 4, little); }
        else { put(&mut d, 1, 4, little); put(&mut d, 0, 4, little); put(&mut d, 100, 8, little); put(&mut d, 8, 8, little); }
        if r.chance(1, 5) { let k = r.below(d.len() as u64) as usize; d.truncate(k); } else { let k = r.below(12) as usize; d.extend(r.bytes(k)); }
        let mut s = sec(*r.pick(&[&b".zdebug_info"[..], b".zdebug_str", b".zdebug"]), SHT_PROGBITS, d); s.flags = SHF_COMPRESSED; sp.secs.push(s);
    }
    // names that are prefixes / extensions / duplicates of each other, and a non-UTF-8 name
    if r.chance(1, 2) { sp.secs.push(sec(b".text.hot", SHT_PROGBITS, r.bytes(3))); }
    if r.chance(1, 3) { sp.secs.push(sec(*r.pick(&[&b".debug_str"[..], b".debug_info", b".comment"]), SHT_PROGBITS, r.bytes(4))); }
    if r.chance(1, 3) { sp.secs.push(sec(b".tex", SHT_PROGBITS, r.bytes(2))); }
    if r.chance(1, 3) { sp.secs.push(sec(b".text", SHT_PROGBITS, r.bytes(5))); }
    if r.chance(1, 4) { sp.secs.push(sec(&[b'.', 0xff, 0xfe], SHT_PROGBITS, r.bytes(2))); }
    // load addresses and sh_info are whatever they are
    for s in sp.secs.iter_mut().skip(1) { if r.chance(1, 3) { s.addr = r.edge64(); } if s.ty == SHT_PROGBITS && r.chance(1, 4) { s.info = r.next() as u32; } }
    // a symbol table whose sh_link is 0 names shdr[0] as its string table (whatever range that header designates)
    if link_to_null { for s in sp.secs.iter_mut() { if s.ty == SHT_SYMTAB || s.ty == SHT_DYNSYM { s.link = 0; } } }
    // section name string table, at a random position among the sections
    let mut shs = sec(b".shstrtab", SHT_STRTAB, vec![]);
    shs.align = 1;
    // the name table is found by index, not by type or flags
    if r.chance(1, 5) { shs.flags = *r.pick(&[SHF_COMPRESSED, 0x20, 0x30, 2, 0x802]); }
    if r.chance(1, 10) { shs.ty = *r.pick(&[SHT_PROGBITS, SHT_NOTE, 8, 8, 0x7000_0000]); }
    let at = r.range(1, sp.secs.len() as u64) as usize;
    // inserting shifts indices: fix links
    for s in sp.secs.iter_mut() { if s.link as usize >= at && (s.ty == SHT_DYNSYM || s.ty == SHT_SYMTAB || s.ty == SHT_HASH || s.ty == SHT_GNU_HASH || s.ty == SHT_GNU_VERSYM || s.ty == SHT_GNU_VERNEED || s.ty == SHT_GNU_VERDEF || s.ty == SHT_DYNAMIC) && s.link != 0 { s.link += 1; } }
    sp.secs.insert(at, shs);
    sp.shstrndx = at;
    let fix = |o: Option<usize>| o.map(|i| if i >= at { i + 1 } else { i });
    let dyn_idx = fix(dyn_idx);
    let note_idx = fix(note_idx);
    // segments
    if sp.have_phdrs {
        if let Some(di) = dyn_idx {
            // PT_DYNAMIC usually designates the .dynamic section; sometimes only a leading part of it, or other bytes
            let mut g = Seg { ty: 2, flags: 6, sec: Some(di), align: 8, ..Default::default() };
            match r.below(6) {
                0 | 1 => { g.sec = None; g.off = u64::MAX; g.filesz = (sp.secs[di].data.len() as u64 / 2 / dynsz) * dynsz; g.memsz = di as u64; }
                2 => { g.sec = Some(r.range(1, sp.secs.len() as u64 - 1) as usize); }
                _ => {}
            }
            sp.segs.push(g);
        }
        else if r.chance(2, 3) {
            // PT_DYNAMIC without any SHT_DYNAMIC section: the entries live in a plain PROGBITS section
            let mut d = Vec::new();
            for _ in 0..r.range(1, 3) { put(&mut d, r.below(40), dynsz as usize / 2, little); put(&mut d, r.edge64(), dynsz as usize / 2, little); }
            put(&mut d, 0, dynsz as usize / 2, little); put(&mut d, 0, dynsz as usize / 2, little);
            let mut s = sec(b".dynbytes", SHT_PROGBITS, d); s.align = 8;
            sp.secs.push(s);
            sp.segs.push(Seg { ty: 2, flags: 6, sec: Some(sp.secs.len() - 1), align: 8, ..Default::default() });
        }
        if let Some(ni) = note_idx {
            // PT_NOTE usually designates the note section; sometimes only its leading notes (same start, shorter)
            let mut g = Seg { ty: 4, flags: 4, sec: Some(ni), align: sp.secs[ni].align, ..Default::default() };
            if note_cuts.len() >= 2 && r.chance(1, 2) {
                g.sec = None; g.off = u64::MAX; g.filesz = note_cuts[r.below(note_cuts.len() as u64 - 1) as usize] as u64; g.memsz = ni as u64;
            }
            sp.segs.push(g);
        }
        for _ in 0..r.below(3) {
            let si = r.range(1, sp.secs.len() as u64 - 1) as usize;
            sp.segs.push(Seg { ty: *r.pick(&[1u32, 1, 6, 7, 0x6474e551]), flags: r.below(8) as u32, sec: Some(si), memsz: r.below(3) * 16, align: 0x1000, vaddr: r.edge64(), ..Default::default() });
        }
        // order of segments is arbitrary
        if sp.segs.len() > 1 && r.chance(1, 2) { sp.segs.reverse(); }
    }
    if !sp.have_shdrs { sp.ext_shnum = false; sp.ext_phnum = false; sp.ext_shstrndx = false; }
    if r.chance(1, 2) && sp.secs.len() > 2 {
        // the order of sections in the table is arbitrary: permute, remapping every section index
        let n = sp.secs.len();
        let mut perm: Vec<usize> = (0..n).collect();            // perm[old] = new ; 0 stays
        for i in (2..n).rev() { let j = r.range(1, i as u64) as usize; perm.swap(i, j); }
        let mut ns: Vec<Sec> = vec![Sec::default(); n];
        for (old, s) in sp.secs.iter().enumerate() { ns[perm[old]] = s.clone(); }
        for s in ns.iter_mut() {
            if [SHT_DYNSYM, SHT_SYMTAB, SHT_HASH, SHT_GNU_HASH, SHT_GNU_VERSYM, SHT_GNU_VERNEED, SHT_GNU_VERDEF, SHT_DYNAMIC].contains(&s.ty) && (s.link as usize) < n {
                s.link = perm[s.link as usize] as u32;
            }
        }
        sp.secs = ns;
        sp.shstrndx = perm[sp.shstrndx];
        for g in sp.segs.iter_mut() { if let Some(si) = g.sec { g.sec = Some(perm[si]); } else if g.off == u64::MAX { g.memsz = perm[g.memsz as usize] as u64; } }
    }
    let mut b = layout(&mut sp, r);
    b.sym_names = sym_names;
    b.nversym = nversym;
    (sp, b)
}

pub const EDGE_VALS: [u64; 16] = [0, 1, 2, 0x7f, 0x80, 0xff, 0xff00, 0xffff, 0x7fff_ffff, 0x8000_0000, 0xffff_ffff,
    0x1_0000_0000, 0x7fff_ffff_ffff_ffff, 0x8000_0000_0000_0000, 0xffff_ffff_ffff_fffe, 0xffff_ffff_ffff_ffff];

/// structured corruption: overwrite header fields with boundary values (cut to the field width)
pub fn corrupt(b: &mut Built, little: bool, r: &mut Rng) -> Vec<String> {
    let mut what = Vec::new();
    let k = r.range(1, 3);
    for _ in 0..k {
        if b.fields.is_empty() { break; }
        // a quarter of the edits redirect a link: to section 0 (whose own fields may carry extended-numbering values),
        // to a low index, or past the table
        if r.chance(1, 4) {
            let links: Vec<usize> = b.fields.iter().enumerate().filter(|(_, f)| f.2.ends_with(".sh_link") && !f.2.starts_with("sh0.")).map(|(i, _)| i).collect();
            if !links.is_empty() {
                let (off, w, label) = b.fields[*r.pick(&links)].clone();
                let v = *r.pick(&[0u64, 0, 1, 2, 3, 0xff00, 0xffff, 0xffff_ffff]);
                let mut e = Vec::new();
                put(&mut e, v, w, little);
                if off + w <= b.bytes.len() { b.bytes[off..off + w].copy_from_slice(&e); }
                what.push(format!("{label}={v:#x}"));
                continue;
            }
        }
        let (off, w, label) = b.fields[r.below(b.fields.len() as u64) as usize].clone();
        let len = b.bytes.len() as u64;
        let v = match r.below(4) {
            0 => *r.pick(&EDGE_VALS),
            1 => len.wrapping_add(r.below(3)).wrapping_sub(1),
            2 => r.below(len + 2),
            _ => r.edge64(),
        };
        let mut e = Vec::new();
        put(&mut e, v, w, little);
        if off + w <= b.bytes.len() { b.bytes[off..off + w].copy_from_slice(&e); }
        what.push(format!("{label}={v:#x}"));
    }
    what
}

/// a relational corruption: the section a table links to (its string table) is made to designate a range that
/// strictly encloses the table's own range (or the other way round), so that the two ranges a multi-range
/// accessor loads are nested
pub fn nest_linked(b: &mut Built, sp: &ElfSpec, r: &mut Rng) -> Option<String> {
    let cands: Vec<usize> = (1..sp.secs.len()).filter(|&i| {
        let s = &sp.secs[i];
        [SHT_SYMTAB, SHT_DYNSYM, SHT_GNU_VERNEED, SHT_GNU_VERDEF, SHT_DYNAMIC].contains(&s.ty) && (s.link as usize) > 0
            && (s.link as usize) < sp.secs.len() && !s.data.is_empty()
    }).collect();
    if cands.is_empty() { return None; }
    let a = *r.pick(&cands);
    let l = sp.secs[a].link as usize;
    let (inner, outer) = if r.chance(3, 4) { (a, l) } else { (l, a) };
    let (ioff, ilen) = (sp.secs[inner].off, sp.secs[inner].data.len() as u64);
    let d1 = r.range(1, 3).min(ioff);
    let d2 = r.range(1, 3);
    if d1 == 0 || ioff + ilen + d2 > b.bytes.len() as u64 { return None; }
    let fo = b.fields.iter().position(|f| f.2 == format!("sh{outer}.sh_offset"))?;
    let fs = b.fields.iter().position(|f| f.2 == format!("sh{outer}.sh_size"))?;
    for (fi, v) in [(fo, ioff - d1), (fs, ilen + d1 + d2)] {
        let (off, w, _) = b.fields[fi].clone();
        let mut e = Vec::new(); put(&mut e, v, w, sp.little);
        b.bytes[off..off + w].copy_from_slice(&e);
    }
    Some(format!("nest: sh{outer} encloses sh{inner}"))
}

fn mutate_shdr(h: &Value, r: &mut Rng, flen: u64) -> Value {
    let mut m = h.clone();
    let pickv = |r: &mut Rng| match r.below(5) { 0 => *r.pick(&EDGE_VALS), 1 => flen, 2 => flen.wrapping_sub(1), 3 => flen + 1, _ => r.below(flen + 1) };
    match r.below(5) {
        0 => { m["sh_offset"] = w8(pickv(r)); }
        1 => { m["sh_size"] = w8(pickv(r)); }
        2 => { m["sh_offset"] = w8(pickv(r)); m["sh_size"] = w8(pickv(r)); }
        3 => {
            m["sh_type"] = w4(*r.pick(&[0u32, 1, 3, 4, 7, 8, 9, 11]));
            // (a megabyte of zeros retyped as notes / relocations is tens of thousands of records: keep retyped ranges short)
            if rd_w(&m["sh_size"]) > 65536 { m["sh_size"] = w8(flen.min(4096)); }
        }
        _ => { let f = rd_w(&m["sh_flags"]); m["sh_flags"] = w8(f ^ SHF_COMPRESSED); }
    }
    m
}
fn mutate_phdr(h: &Value, r: &mut Rng, flen: u64) -> Value {
    let mut m = h.clone();
    let pickv = |r: &mut Rng| match r.below(5) { 0 => *r.pick(&EDGE_VALS), 1 => flen, 2 => flen.wrapping_sub(1), 3 => flen + 1, _ => r.below(flen + 1) };
    match r.below(4) {
        0 => { m["p_offset"] = w8(pickv(r)); }
        1 => { m["p_filesz"] = w8(pickv(r)); }
        2 => {
            m["p_type"] = w4(*r.pick(&[0u32, 1, 2, 4, 6]));
            if rd_w(&m["p_filesz"]) > 65536 { m["p_filesz"] = w8(flen.min(4096)); }
        }
        _ => { m["p_memsz"] = w8(pickv(r)); }
    }
    m
}

/// the full query sweep on an opened file; `pfx` = "" (slice parser: op "q") or "s" (stream: op "sq")
pub fn sweep(r: &mut Rng, x: &mut Exec, sink: &mut Sink, b: &Built, open_ev: &Value, qop: &str, light: bool) {
    let res = &open_ev["res"];
    if res["out"] != "ok" { return; }
    let flen = b.bytes.len() as u64;
    let stream = qop == "sq";
    let q = |name: &str| json!({"op": qop, "name": name});
    sink.run(x, &q("shdrs_with_strtab"));
    let mut qnames: Vec<Vec<u8>> = b.sec_names.iter().filter(|n| std::str::from_utf8(n).is_ok()).cloned().collect();
    qnames.sort(); qnames.dedup();
    if light { qnames.truncate(3); }
    let mut extra: Vec<Vec<u8>> = Vec::new();
    for n in qnames.iter().take(4) { if n.len() > 1 { extra.push(n[..n.len() - 1].to_vec()); } let mut e = n.clone(); e.push(b'x'); extra.push(e); }
    extra.push(b".nope".to_vec());
    for n in [&b".debug_info"[..], b".debug_str", b".zdebug_info", b".comment", b".note.gnu.build-id", b".gnu.hash", b".data", b".symtab"] {
        if r.chance(1, 3) { extra.push(n.to_vec()); }
    }
    for n in qnames.iter().chain(extra.iter()) {
        let mut o = q("shdr_by_name"); o["qname"] = bytes_val(n); sink.run(x, &o);
    }
    let empty = vec![];
    let shents = res["sh"]["ents"].as_array().unwrap_or(&empty);
    for (k, h) in shents.iter().enumerate() {
        if h.get("bad").is_some() { continue; }
        if light && k > 6 { break; }
        let mut variants = vec![h.clone()];
        if r.chance(1, 3) { variants.push(mutate_shdr(h, r, flen)); }
        for hv in variants {
            let ty = rd_w(&hv["sh_type"]) as u32;
            let mut o = q("section_data"); o["shdr"] = hv.clone(); sink.run(x, &o);
            if b.cap_views > 0 && rd_w(&hv["sh_size"]) > b.cap_views && ty != 8 { continue; }
            let views: Vec<&str> = match ty {
                SHT_STRTAB => vec!["section_data_as_strtab", "section_data_as_notes"],
                SHT_REL => vec!["section_data_as_rels", "section_data_as_relas"],
                SHT_RELA => vec!["section_data_as_relas", "section_data_as_strtab"],
                SHT_NOTE => vec!["section_data_as_notes", "section_data_as_rels"],
                _ => vec![*r.pick(&["section_data_as_strtab", "section_data_as_rels", "section_data_as_relas", "section_data_as_notes"])],
            };
            for v in views { let mut o = q(v); o["shdr"] = hv.clone(); sink.run(x, &o); }
        }
    }
    let phents = res["ph"]["ents"].as_array().unwrap_or(&empty);
    for h in phents.iter() {
        if h.get("bad").is_some() { continue; }
        let mut variants = vec![h.clone()];
        if r.chance(1, 3) { variants.push(mutate_phdr(h, r, flen)); }
        for hv in variants {
            if !stream { let mut o = q("segment_data"); o["phdr"] = hv.clone(); sink.run(x, &o); }
            if b.cap_views > 0 && rd_w(&hv["p_filesz"]) > b.cap_views && rd_w(&hv["p_type"]) == 4 { continue; }
            let mut o = q("segment_data_as_notes"); o["phdr"] = hv.clone(); sink.run(x, &o);
        }
    }
    sink.run(x, &q("symbol_table"));
    sink.run(x, &q("dynamic_symbol_table"));
    sink.run(x, &q("dynamic"));
    let mut o = q("symbol_version_table");
    let mut qs = Vec::new();
    for i in 0..(b.nversym as u64 + 2).min(12) { qs.push(json!(["req", w8(i)])); qs.push(json!(["def", w8(i)])); }
    qs.push(json!(["req", w8(u64::MAX)]));
    o["qs"] = json!(qs);
    sink.run(x, &o);
    if !stream {
        let mut o = q("find_common_data");
        let mut names: Vec<Value> = b.sym_names.iter().skip(1).take(8).map(|n| bytes_val(n)).collect();
        names.push(bytes_val(b"absent_name"));
        names.push(bytes_val(b""));
        o["names"] = json!(names);
        sink.run(x, &o);
    }
    // repeat a couple of earlier queries: answers must not depend on history
    sink.run(x, &q("dynamic"));
    sink.run(x, &q("shdrs_with_strtab"));
}

pub fn file_buf_op(slot: &str, bytes: &[u8]) -> Value {
    json!({"op":"buf","slot":slot,"bytes":bytes_val(bytes)})
}

/// family "elf": well-formed objects (rich), opened with Any and with the matching fixed spec
pub fn elf_family(r: &mut Rng, n: u64, x: &mut Exec, sink: &mut Sink, corrupt_it: bool) {
    for _ in 0..n {
        let (sp, mut b) = random_elf(r, true);
        let mut note = vec![];
        if corrupt_it {
            note = corrupt(&mut b, sp.little, r);
            if r.chance(1, 6) { let k = r.below(b.bytes.len() as u64 + 1) as usize; b.bytes.truncate(k); note.push(format!("truncate={k}")); }
            if r.chance(1, 6) { for _ in 0..r.range(1, 4) { let i = r.below(b.bytes.len().max(1) as u64) as usize; if i < b.bytes.len() { b.bytes[i] = r.next() as u8; } } note.push("flips".into()); }
        }
        sink.run(x, &json!({"op":"session","family": if corrupt_it { "elfcorrupt" } else { "elf" }, "what": note}));
        sink.run(x, &file_buf_op("file", &b.bytes));
        let fixed = if sp.little { "LE" } else { "BE" };
        let specs: Vec<&str> = if corrupt_it { vec!["Any"] } else { vec!["Any", fixed, if sp.little { "BE" } else { "LE" }, "Native"] };
        for (k, es) in specs.iter().enumerate() {
            let evs = sink.run(x, &json!({"op":"open","es":es,"fileslot":"file"}));
            if let Some(ev) = evs.first() { sweep(r, x, sink, &b, ev, "q", k > 0); }
            // the handle's `ehdr` is a public field: after the caller wrote to it, every accessor must still return
            if k == 0 && r.chance(1, 2) {
                if let Some(ev) = evs.first() {
                    sink.run(x, &ehdr_edit_op(r));
                    sweep(r, x, sink, &b, ev, "q", true);
                }
            }
        }
    }
}

/// a caller's write to the public header of an open handle
pub fn ehdr_edit_op(r: &mut Rng) -> Value {
    let mut o = json!({"op":"ehdr_edit"});
    let v16 = |r: &mut Rng| *r.pick(&[0u64, 1, 2, 0xff00, 0xfffe, 0xffff, 40, 64]);
    for _ in 0..r.range(1, 3) {
        match r.below(8) {
            0 => { o["class"] = json!(*r.pick(&[32u64, 64])); }
            1 => { o["e_shstrndx"] = w8(v16(r)); }
            2 => { o["e_shnum"] = w8(v16(r)); }
            3 => { o["e_phnum"] = w8(v16(r)); }
            4 => { o["e_shoff"] = w8(r.edge64()); }
            5 => { o["e_phoff"] = w8(r.edge64()); }
            6 => { o["e_shentsize"] = w8(v16(r)); o["e_phentsize"] = w8(v16(r)); }
            _ => { o["flip_order"] = json!(true); }
        }
    }
    o
}

/// random bytes and near-ELF garbage through open + sweep
pub fn garbage_family(r: &mut Rng, n: u64, x: &mut Exec, sink: &mut Sink) {
    for _ in 0..n {
        let len = match r.below(4) { 0 => r.below(70), 1 => r.below(200), _ => r.below(600) } as usize;
        let mut bytes = match r.below(3) { 0 => r.bytes(len), _ => crate::gen::edgy_bytes(r, len) };
        if r.chance(3, 4) && bytes.len() >= 16 {
            bytes[..4].copy_from_slice(&[0x7f, b'E', b'L', b'F']);
            bytes[4] = *r.pick(&[1u8, 2]); bytes[5] = *r.pick(&[1u8, 2]); bytes[6] = 1;
        }
        sink.run(x, &json!({"op":"session","family":"garbage"}));
        sink.run(x, &file_buf_op("file", &bytes));
        let b = Built { bytes: bytes.clone(), ..Default::default() };
        let evs = sink.run(x, &json!({"op":"open","es":"Any","fileslot":"file"}));
        if let Some(ev) = evs.first() { sweep(r, x, sink, &b, ev, "q", false); }
    }
}

/// dense or sparse buffer event for a file
pub fn sparse_buf_op(slot: &str, bytes: &[u8]) -> Value {
    if bytes.len() <= 8192 { return file_buf_op(slot, bytes); }
    // everything that is not zero sits in the first 16 KiB: one chunk (the specification indexes it directly)
    let last = bytes.iter().rposition(|b| *b != 0).map(|i| i + 1).unwrap_or(0);
    if last <= 16384 {
        return json!({"op":"buf","slot":slot,"len":bytes.len(),"fill":0,"chunks":[{"off":0,"bytes":bytes_val(&bytes[..last])}]});
    }
    let mut chunks = Vec::new();
    let mut i = 0usize;
    while i < bytes.len() {
        if bytes[i] == 0 { i += 1; continue; }
        let start = i;
        let mut zeros = 0usize;
        let mut end = i;
        while i < bytes.len() && zeros < 64 {
            if bytes[i] == 0 { zeros += 1; } else { zeros = 0; end = i + 1; }
            i += 1;
        }
        chunks.push(json!({"off": start, "bytes": bytes_val(&bytes[start..end])}));
    }
    json!({"op":"buf","slot":slot,"len":bytes.len(),"fill":0,"chunks":chunks})
}

fn reader_spec(r: &mut Rng, benign_faults: bool) -> Value {
    let chunk = *r.pick(&["full", "full", "one", "rand"]);
    let mut faults = Vec::new();
    if benign_faults {
        for _ in 0..r.below(4) { faults.push(json!([r.below(60), *r.pick(&["interrupted", "short"])])); }
        // a burst of consecutive EINTRs (a signal storm): read_exact retries as long as it takes
        if r.chance(1, 3) {
            let start = r.below(40);
            let len = *r.pick(&[2u64, 3, 7, 8, 9, 10, 16, 17, 33, 64, 65, 100, 255, 256, 257]);
            for k in 0..len { faults.push(json!([start + k, "interrupted"])); }
        }
    }
    json!({"chunk": chunk, "seed": r.next() >> 1, "faults": faults})
}

/// stream families: "plain" (legal reader behaviours, both parsers side by side), "fault" / "faultall"
/// (one hard fault at a sampled / at every I/O call index, then the same queries again on the same
/// stream), "big" (headers claiming huge sizes and counts)
pub fn stream_family(r: &mut Rng, n: u64, x: &mut Exec, sink: &mut Sink, mode: &str) {
    for it in 0..n {
        let rich = mode != "faultall" && !r.chance(1, 4);
        let (sp, mut b) = random_elf(r, rich);
        let mut note = vec![];
        let corrupt_it = match mode { "big" => true, "plain" => r.chance(1, 3), _ => r.chance(1, 5) };
        if mode == "big" {
            // sizes / offsets / counts claim far more than the stream holds
            let cands: Vec<usize> = b.fields.iter().enumerate().filter(|(_, f)| f.2.ends_with("sh_size") || f.2.ends_with("sh_offset")
                || f.2.ends_with("p_filesz") || f.2.ends_with("p_offset") || f.2 == "e_shnum" || f.2 == "e_phnum" || f.2 == "e_shoff" || f.2 == "e_phoff"
                || f.2.ends_with("sh_info") || f.2.ends_with("sh_link")).map(|(i, _)| i).collect();
            for _ in 0..r.range(1, 3) {
                if cands.is_empty() { break; }
                let (off, w, label) = b.fields[*r.pick(&cands)].clone();
                let v = *r.pick(&[0x10_0000u64, 0x400_0000, 0x4000_0000, 0x7fff_ffff, 0x8000_0000, 0xffff_ffff, 0x1_0000_0000, 1 << 40, 1 << 62, 1 << 63, u64::MAX, u64::MAX - 1, 0xffff, 0xff00]);
                let mut e = Vec::new(); put(&mut e, v, w, sp.little);
                if off + w <= b.bytes.len() { b.bytes[off..off + w].copy_from_slice(&e); }
                note.push(format!("{label}={v:#x}"));
            }
        } else if corrupt_it {
            note = corrupt(&mut b, sp.little, r);
        } else if mode == "plain" && (it % 3 == 2 || r.chance(1, 4)) {
            if let Some(w) = nest_linked(&mut b, &sp, r) { note.push(w); }
        }
        let nested = note.iter().any(|w| w.starts_with("nest:"));
        sink.run(x, &json!({"op":"session","family":format!("stream-{mode}"),"what":note}));
        sink.run(x, &sparse_buf_op("file", &b.bytes));
        let es = if r.chance(3, 4) { "Any" } else if sp.little { "LE" } else { "BE" };
        if mode == "plain" || mode == "big" {
            let evs = sink.run(x, &json!({"op":"open","es":es,"fileslot":"file"}));
            if let Some(ev) = evs.first() { sweep(r, x, sink, &b, ev, "q", true); }
            sink.record = Some(Vec::new());
            let evs = sink.run(x, &json!({"op":"sopen","es":es,"fileslot":"file","reader":reader_spec(r, true)}));
            if let Some(ev) = evs.first() {
                sweep(r, x, sink, &b, ev, "sq", false);
            }
            let script: Vec<Value> = sink.record.take().unwrap_or_default();
            if let Some(ev) = evs.first() {
                // again, in another order and with repetition: cached ranges must give the same answers
                if r.chance(1, 2) { sweep(r, x, sink, &b, ev, "sq", true); }
                // ... and after the caller wrote to the public header of the handle (its own fresh stream object)
                if r.chance(1, 4) {
                    let mut o = script.first().cloned().unwrap_or(json!(null));
                    if o.is_object() {
                        o["reader"] = json!({"chunk":"full","seed":1,"faults":[]});
                        let evs3 = sink.run(x, &o);
                        if let Some(ev3) = evs3.first() { sink.run(x, &ehdr_edit_op(r)); sweep(r, x, sink, &b, ev3, "sq", true); }
                    }
                }
            }
            // cache interplay: pre-load the first range of a multi-range accessor, then caller-made headers that
            // designate large overlapping ranges sharing a start or an end, then the accessor (twice)
            if let Some(ev) = evs.first() {
                if ev["res"]["out"] == "ok" {
                    let empty = vec![];
                    let ents = ev["res"]["sh"]["ents"].as_array().unwrap_or(&empty).clone();
                    let flen = b.bytes.len() as u64;
                    for h in ents.iter() {
                        let ty = rd_w(&h["sh_type"]) as u32;
                        let acc = match ty { SHT_SYMTAB => "symbol_table", SHT_DYNSYM => "dynamic_symbol_table", SHT_GNU_VERSYM => "symbol_version_table",
                            SHT_NOTE => "section_data_as_notes", SHT_REL => "section_data_as_rels", SHT_RELA => "section_data_as_relas",
                            SHT_STRTAB => "section_data_as_strtab", SHT_DYNAMIC => "dynamic", _ => continue };
                        if !nested && !r.chance(2, 3) { continue; }
                        let hsz = rd_w(&h["sh_size"]).min(flen);
                        let hoff = rd_w(&h["sh_offset"]).min(flen);
                        let mut prelude: Vec<Value> = vec![json!({"op":"sq","name":"section_data","shdr":h.clone()})];
                        for (off, size) in [(0u64, flen), (1, flen - 1), (0, flen - 1), (flen / 2, flen - flen / 2), (0, flen / 2),
                                            (0, flen - hsz), (0, (flen - hsz).saturating_sub(1)), (hsz.min(flen), flen - hsz.min(flen)),
                                            // ranges sharing the section's own start (longer, shorter) or its end
                                            (hoff, flen - hoff), (hoff, hsz / 2), (hoff, (hsz + 1).min(flen - hoff)),
                                            (hoff.saturating_sub(1), (hsz + 1).min(flen - hoff.saturating_sub(1))), (hoff + hsz / 2, hsz - hsz / 2)] {
                            if !(nested && off <= 1) && r.chance(1, 2) { continue; }    // (nested ranges: the cache then holds more bytes than the stream has)
                            let mut hh = h.clone(); hh["sh_type"] = w4(1); hh["sh_flags"] = w8(0); hh["sh_offset"] = w8(off); hh["sh_size"] = w8(size);
                            prelude.push(json!({"op":"sq","name":"section_data","shdr":hh}));
                        }
                        for i in (1..prelude.len()).rev() { let j = r.below(i as u64 + 1) as usize; prelude.swap(i, j); }
                        for o in &prelude { sink.run(x, o); }
                        let mut q = json!({"op":"sq","name":acc});
                        if acc == "symbol_version_table" { q["qs"] = json!([["req", w8(1)], ["def", w8(1)]]); }
                        if acc.starts_with("section_data_as") { q["shdr"] = h.clone(); }
                        sink.run(x, &q); sink.run(x, &q);
                    }
                }
            }
            // long sessions: N distinct caller-made ranges on a FRESH stream (N around every power of two from 2^5
            // to 2^12, and to 2^16 in long runs: a cache that reorganises itself at a size threshold does so in the
            // middle of a multi-range accessor), then the accessors that load several ranges before using them.
            // One `sbulk` event stands for the N reads (spec/Bulk.tla).
            if script.len() > 2 && b.bytes.len() > 200 {
                let flen = b.bytes.len() as u64;
                let m = flen - 70;
                const TS: [u64; 12] = [32, 64, 128, 256, 512, 1024, 2048, 4096, 8192, 16384, 32768, 65536];
                let t = TS[(it % if n >= 30 { 12 } else { 8 }) as usize].min(69 * m - 2);
                for cnt in (t - 6)..=(t + 1) {
                    let mut o = script[0].clone();
                    o["reader"] = json!({"chunk":"full","seed":1,"faults":[]});
                    let evs2 = sink.run(x, &o);
                    if evs2.first().map(|e| e["res"]["out"] != "ok").unwrap_or(true) { break; }
                    sink.run(x, &json!({"op":"sbulk","n":cnt,"m":m}));
                    sink.run(x, &json!({"op":"sq","name":"symbol_table"}));
                    sink.run(x, &json!({"op":"sq","name":"dynamic_symbol_table"}));
                    sink.run(x, &json!({"op":"sq","name":"symbol_version_table","qs":[["req", w8(1)]]}));
                }
            }
            // histories that put 2^24 / 2^28 / 2^30 bytes into the cache: the object grows a section of a little over
            // 1 MiB and N ranges of about 1 MiB each are read (N around 16, 256, 1024), then the multi-range accessors
            if it % 4 == 3 && script.len() > 2 && !corrupt_it {
                let mut sp2 = sp.clone();
                let mut sb = sec(b".big", SHT_PROGBITS, vec![0u8; (1usize << 20) + 4096]); sb.align = 1;
                sp2.secs.push(sb);
                // the symbol tables name the large section as their string table: the accessor then loads a small range
                // and a large one, and some N puts the budget's edge between the two
                let bigidx = (sp2.secs.len() - 1) as u32;
                for s in sp2.secs.iter_mut() { if s.ty == SHT_SYMTAB || s.ty == SHT_DYNSYM { s.link = bigidx; } }
                let b2 = layout(&mut sp2, r);
                let flen2 = b2.bytes.len() as u64;
                let size0 = (1u64 << 20) - 64;
                let m2 = flen2.saturating_sub(size0 + 8).max(1);
                let t = [1024u64, 256, 16][((it / 4) % 3) as usize];
                sink.run(x, &json!({"op":"session","family":format!("stream-{mode}"),"scenario":"bytes-budget","n":t}));
                sink.run(x, &sparse_buf_op("file", &b2.bytes));
                for cnt in (t - 2)..=(t + 3) {
                    let evs2 = sink.run(x, &json!({"op":"sopen","es":es,"fileslot":"file","reader":{"chunk":"full","seed":1,"faults":[]}}));
                    if evs2.first().map(|e| e["res"]["out"] != "ok").unwrap_or(true) { break; }
                    sink.run(x, &json!({"op":"sbulk","n":cnt,"m":m2,"size0":size0}));
                    sink.run(x, &json!({"op":"sq","name":"symbol_table"}));
                    sink.run(x, &json!({"op":"sq","name":"dynamic_symbol_table"}));
                    sink.run(x, &json!({"op":"sq","name":"symbol_version_table","qs":[["req", w8(1)]]}));
                }
            }
            // the same queries in random orders on fresh stream objects (any order, any number of times)
            if script.len() > 2 {
                for _ in 0..2 {
                    let mut o = script[0].clone();
                    o["reader"] = reader_spec(r, true);
                    sink.run(x, &o);
                    let mut idx: Vec<usize> = (1..script.len()).collect();
                    for i in (1..idx.len()).rev() { let j = r.below(i as u64 + 1) as usize; idx.swap(i, j); }
                    for i in idx.iter().take(40) { sink.run(x, &script[*i]); }
                }
            }
            continue;
        }
        // fault enumeration: fault-free pass records the script and counts the I/O calls
        let rd = reader_spec(r, false);
        sink.record = Some(Vec::new());
        let evs = sink.run(x, &json!({"op":"sopen","es":es,"fileslot":"file","reader":rd}));
        let evs0: Option<Value> = evs.first().filter(|e| e["res"]["out"] == "ok").cloned();
        let b_bytes = b.bytes.clone();
        let mut total = 0u64;
        if let Some(ev) = evs.first() {
            total = ev["calls"].as_u64().unwrap_or(0);
            sweep(r, x, sink, &b, ev, "sq", true);
        }
        let script = sink.record.take().unwrap_or_default();
        // count calls after the sweep: re-issue a cheap query and read the counter
        let evs = sink.run(x, &json!({"op":"sq","name":"dynamic"}));
        if let Some(ev) = evs.first() { total = total.max(ev["calls"].as_u64().unwrap_or(0)); }
        // targeted: A (ok), B (hard fault on its read or its seek), then C that starts exactly where A ended
        if let Some(ev) = evs0.as_ref() {
            let empty = vec![];
            let ents: Vec<Value> = ev["res"]["sh"]["ents"].as_array().unwrap_or(&empty).iter()
                .filter(|h| h.get("bad").is_none() && rd_w(&h["sh_type"]) != 8 && rd_w(&h["sh_size"]) > 0).cloned().collect();
            let mut triples = 0;
            for a in ents.iter() {
                let a_end = rd_w(&a["sh_offset"]).wrapping_add(rd_w(&a["sh_size"]));
                for c in ents.iter().filter(|c| rd_w(&c["sh_offset"]) == a_end) {
                    for b in ents.iter().filter(|b| rd_w(&b["sh_offset"]) != a_end && rd_w(&b["sh_offset"]) != rd_w(&a["sh_offset"])).take(2) {
                        if triples >= 6 { break; }
                        triples += 1;
                        sink.run(x, &json!({"op":"session","family":format!("stream-{mode}"),"scenario":"adjacent"}));
                        sink.run(x, &sparse_buf_op("file", &b_bytes));
                        sink.run(x, &json!({"op":"sopen","es":es,"fileslot":"file","reader":{"chunk":"full","seed":1,"faults":[]}}));
                        let q = |h: &Value| json!({"op":"sq","name":"section_data","shdr":h.clone()});
                        sink.run(x, &q(a));
                        let mut qb = q(b); qb["faults"] = json!([[r.below(2), *r.pick(&["error", "eof", "wouldblock", "timedout"])]]);
                        sink.run(x, &qb);
                        sink.run(x, &q(c)); sink.run(x, &q(b)); sink.run(x, &q(c)); sink.run(x, &q(a));
                    }
                }
            }
        }
        let kinds = ["error", "eof", "short", "interrupted"];
        let mut points: Vec<(u64, &str)> = Vec::new();
        // bursts of consecutive EINTRs (benign, however long): (first I/O call index, length)
        const BURSTS: [u64; 9] = [2, 3, 8, 9, 10, 17, 33, 65, 257];
        let mut bursts: Vec<(u64, u64)> = Vec::new();
        for (i, l) in BURSTS.iter().enumerate() {
            if mode == "faultall" || i as u64 % 3 == it % 3 { bursts.push((r.below(total.max(1)), *l)); }
        }
        if mode == "faultall" {
            // every I/O call index: both hard fault kinds (alternating when the script is long)
            for k in 0..total {
                if total <= 120 { for kd in kinds.iter().take(2) { points.push((k, *kd)); } }
                else { points.push((k, kinds[(k % 2) as usize])); }
            }
            for _ in 0..(total / 4) { points.push((r.below(total.max(1)), *r.pick(&kinds[2..]))); }
        } else {
            for _ in 0..12 { points.push((r.below(total.max(1)), *r.pick(&["error", "wouldblock", "timedout", "unexpectedeof", "eof", "short", "interrupted"]))); }
            points.push((0, "error"));
        }
        let mut plan: Vec<(u64, &str, u64)> = points.iter().map(|(k, kd)| (*k, *kd, 1u64)).collect();
        plan.extend(bursts.iter().map(|(k, l)| (*k, "interrupted", *l)));
        for (k, kind, blen) in plan {
            sink.run(x, &json!({"op":"session","family":format!("stream-{mode}"),"fault":[k, kind, blen]}));
            sink.run(x, &sparse_buf_op("file", &b.bytes));
            // the recorded script in its original order, or (half of the time) in a random order, so that the
            // fault lands between arbitrary pairs of queries
            let mut order: Vec<usize> = (1..script.len()).collect();
            if r.chance(1, 2) { for i in (1..order.len()).rev() { let j = r.below(i as u64 + 1) as usize; order.swap(i, j); } }
            let mut o = script[0].clone();
            o["reader"]["faults"] = Value::Array((0..blen).map(|i| json!([k + i, kind])).collect());
            if blen == 1 && r.chance(1, 8) { o["reader"]["perm_from"] = json!(k); }
            sink.run(x, &o);
            for i in &order { sink.run(x, &script[*i]); }
            // the same queries again on the same stream object, no new faults
            for op in script.iter().skip(1) { sink.run(x, op); }
        }
    }
}

/// C18: every interesting prefix of a file (and extensions of it); slot "full" holds the longer file
pub fn prefix_family(r: &mut Rng, n: u64, x: &mut Exec, sink: &mut Sink, every: bool) {
    for it in 0..n {
        // every other object carries one section of a little over 1 MiB (zero-filled, recorded sparsely): a reader that
        // treats large ranges differently from small ones meets the writer that stopped early in the middle of it
        let big = !every && it % 2 == 1;
        let (sp, b) = loop {
            let (mut sp, _) = random_elf(r, true);
            // tables early so that most prefixes still open
            sp.tables_early = true; sp.gap = 0; sp.overlap = false;
            for s in sp.secs.iter_mut() { if let Some(z) = s.nobits { if z > 1 << 20 { s.nobits = Some(64); } } }
            let mut nb = layout(&mut sp, r);
            if nb.bytes.len() < 1500 || every {
                if big {
                    let k = (1usize << 20) + *r.pick(&[0usize, 1, 7, 4096]);
                    let mut s = sec(b".big", SHT_PROGBITS, vec![0u8; k]); s.align = 1;
                    sp.secs.push(s);
                    if sp.have_phdrs { sp.segs.push(Seg { ty: 1, flags: 4, sec: Some(sp.secs.len() - 1), align: 1, ..Default::default() }); }
                    nb = layout(&mut sp, r);
                }
                let (_, ob) = (0, 0); let _ = (ob,); nb.sym_names = vec![]; break (sp, nb);
            }
        };
        let full = b.bytes.clone();
        let mut cuts: Vec<usize> = Vec::new();
        if every {
            cuts = (0..full.len()).collect();
        } else {
            let marks: Vec<usize> = b.fields.iter().flat_map(|(o, w, _)| vec![*o, *o + *w]).collect();
            // every end of a section and of a segment (+-1): where a designated range stops fitting
            let mut ends: Vec<usize> = Vec::new();
            for s in &sp.secs { if s.nobits.is_none() && !s.data.is_empty() { ends.push(s.off as usize + s.data.len()); ends.push(s.off as usize + s.data.len() / 2); } }
            for g in &sp.segs { ends.push((g.off + g.filesz) as usize); }
            ends.sort(); ends.dedup();
            for m in ends { for d in [0usize, 1, 2] { let c = (m + 1).saturating_sub(d); if c < full.len() { cuts.push(c); } } }
            for _ in 0..8 { let m = *r.pick(&marks); for d in [0usize, 1, 2] { let c = (m + 1).saturating_sub(d); if c < full.len() { cuts.push(c); } } }
            for _ in 0..6 { cuts.push(r.below(full.len() as u64) as usize); }
            cuts.push(full.len() - 1);
            cuts.sort(); cuts.dedup();
            if big {
                // the large object: only the cuts that concern the large section (every event on a megabyte-sized sparse
                // file costs TLC tens of milliseconds)
                let bs = sp.secs.last().map(|s| (s.off as usize, s.data.len())).unwrap_or((0, 0));
                let near: Vec<usize> = vec![bs.0, bs.0 + 1, bs.0 + bs.1 / 2, bs.0 + (1 << 20) - 1, bs.0 + (1 << 20), bs.0 + (1 << 20) + 1,
                                            bs.0 + bs.1 - 1, bs.0 + bs.1, full.len() - 1];
                let mut keep: Vec<usize> = near.into_iter().filter(|c| *c < full.len()).collect();
                for _ in 0..3 { keep.push(*r.pick(&cuts)); }
                keep.sort(); keep.dedup();
                cuts = keep;
            }
        }
        let es = *r.pick(&["Any", "Any", if sp.little { "LE" } else { "BE" }]);
        for c in cuts {
            sink.run(x, &json!({"op":"session","family":"prefix","cut":c,"of":full.len()}));
            sink.run(x, &sparse_buf_op("full", &full));
            sink.run(x, &sparse_buf_op("file", &full[..c]));
            let evs = sink.run(x, &json!({"op":"open","es":es,"fileslot":"file"}));
            // (the length below only bounds the sizes of the caller-made header variants: typed views over a megabyte of
            //  zeros are thousands of records, which judge nothing new and take TLC minutes)
            let pb = Built { cap_views: if big { 4096 } else { 0 }, bytes: full[..c.min(4096)].to_vec(), sec_names: b.sec_names.clone(), sym_names: b.sym_names.clone(), nversym: b.nversym, ..Default::default() };
            if let Some(ev) = evs.first() { sweep(r, x, sink, &pb, ev, "q", true); }
            // the same prefix through the stream parser (the property names both)
            if big || (!every && r.chance(1, 3)) {
                let evs = sink.run(x, &json!({"op":"sopen","es":es,"fileslot":"file","reader":{"chunk":"full","seed":1,"faults":[]}}));
                if let Some(ev) = evs.first() { sweep(r, x, sink, &pb, ev, "sq", true); }
            }
        }
        // appending arbitrary bytes: the original is the prefix
        for _ in 0..2 {
            let mut ext = full.clone();
            let k = r.range(1, 40) as usize;
            ext.extend(r.bytes(k));
            sink.run(x, &json!({"op":"session","family":"prefix","append":k}));
            sink.run(x, &sparse_buf_op("full", &ext));
            sink.run(x, &sparse_buf_op("file", &full));
            let evs = sink.run(x, &json!({"op":"open","es":es,"fileslot":"file"}));
            let bb = Built { cap_views: if big { 4096 } else { 0 }, bytes: full[..full.len().min(4096)].to_vec(), sec_names: b.sec_names.clone(), sym_names: b.sym_names.clone(), nversym: b.nversym, ..Default::default() };
            if let Some(ev) = evs.first() { sweep(r, x, sink, &bb, ev, "q", true); }
        }
    }
}

/// C05: where the header tables are, incl. extended numbering with counts crossing 0xff00 / 0xffff
pub fn locate_family(r: &mut Rng, n: u64, x: &mut Exec, sink: &mut Sink) {
    for _ in 0..n {
        let class = *r.pick(&[32u64, 64]);
        let little = r.chance(1, 2);
        let nsec: usize = *r.pick(&[1usize, 2, 5, 0xfeff, 0xff00, 0xff01, 0xff20, 3, 4, 0x10000, 0x10003]);
        let nseg: usize = *r.pick(&[0usize, 1, 3, 0xfffe, 0xffff, 0x10000, 0x10010, 2]);
        let mut sp = ElfSpec { class, little, have_shdrs: true, have_phdrs: nseg > 0, tables_early: r.chance(1, 2), ..Default::default() };
        sp.secs.push(Sec::default());
        for i in 1..nsec.min(6) { let k = r.below(12) as usize; sp.secs.push(sec(format!(".s{i}").as_bytes(), SHT_PROGBITS, r.bytes(k))); }
        while sp.secs.len() < nsec { sp.secs.push(Sec::default()); }
        // the section name string table: below / at / above 0xff00 when there are that many sections
        let ndx = if nsec > 0xff00 { *r.pick(&[2usize.min(nsec - 1), 0xfeff, 0xff00, 0xff01.min(nsec - 1), 0xfffe.min(nsec - 1), nsec - 1]) } else { r.range(0, nsec as u64 - 1) as usize };
        if ndx > 0 { sp.secs[ndx] = sec(b".shstrtab", SHT_STRTAB, vec![]); }
        sp.shstrndx = ndx;
        sp.ext_shnum = nsec >= 0xff00 || r.chance(1, 4);
        // an index in the reserved range 0xff00..0xfffe is sometimes written into e_shstrndx directly: the crate takes
        // the field literally unless it is SHN_XINDEX, and both parsers must take it the same way
        sp.ext_shstrndx = ndx >= 0xffff || (ndx >= 0xff00 && r.chance(1, 2)) || (ndx > 0 && r.chance(1, 4));
        sp.ext_phnum = nseg >= 0xffff || (nseg > 0 && r.chance(1, 4));
        for _ in 0..nseg.min(4) { sp.segs.push(Seg { ty: 1, flags: 5, sec: Some(r.range(0, nsec.min(6) as u64 - 1) as usize), align: 16, ..Default::default() }); }
        while sp.segs.len() < nseg { sp.segs.push(Seg::default()); }
        // shdr[0] holds three pairwise distinct values, each designating a table that would fit
        if !sp.ext_phnum { sp.secs[0].info = (nsec as u32 / 2).max(1) + 1; }
        if !sp.ext_shstrndx { sp.secs[0].link = (nsec as u32 / 3).max(1) + 2; }
        let mut b = layout(&mut sp, r);
        let mut note = vec![format!("nsec={nsec:#x} nseg={nseg:#x} ndx={ndx:#x}")];
        // defects that must make open fail / absent tables
        let fidx = |b: &Built, l: &str| b.fields.iter().position(|f| f.2 == l);
        match r.below(15) {
            13 | 14 if sp.ext_shnum => { if let Some(i) = fidx(&b, "sh0.sh_size") { let (o, w, _) = b.fields[i].clone(); let v = *r.pick(&[1u64 << 58, 1 << 62, 1 << 63, u64::MAX, u64::MAX / 64, u64::MAX / 40 + 1, 0xffff_ffff, 0x8000_0000]); let mut e = vec![]; put(&mut e, v, w, little); b.bytes[o..o + w].copy_from_slice(&e); note.push(format!("sh0.sh_size={v:#x}")); } }
            10 if sp.ext_shnum && class == 64 => { if let Some(i) = fidx(&b, "sh0.sh_size") { let (o, _w, _) = b.fields[i].clone(); let hi = if little { o + 4 } else { o + 3 }; b.bytes[hi] = *r.pick(&[1u8, 2, 0x80]); note.push("sh0.sh_size+=2^32k".into()); } }
            11 | 12 if nseg > 0 => {
                // PN_XNUM while the file has no section header table: shdr[0] is read at e_shoff = 0
                for (l, v) in [("e_shoff", 0u64), ("e_shnum", 0), ("e_phnum", 0xffff), ("e_shentsize", *r.pick(&[0u64, 1, 39, 40, 41, 63, 64, 65, 0xffff]))] {
                    if let Some(i) = fidx(&b, l) { let (o, w, _) = b.fields[i].clone(); let mut e = vec![]; put(&mut e, v, w, little); b.bytes[o..o + w].copy_from_slice(&e); }
                }
                note.push("pn_xnum_without_shdrs".into());
            }
            0 => { if let Some(i) = fidx(&b, "e_shentsize") { let (o, w, _) = b.fields[i].clone(); let v = *r.pick(&[0u64, 39, 41, 63, 65, 40, 64, 0xffff]); let mut e = vec![]; put(&mut e, v, w, little); b.bytes[o..o + w].copy_from_slice(&e); note.push(format!("e_shentsize={v}")); } }
            1 => { if let Some(i) = fidx(&b, "e_phentsize") { let (o, w, _) = b.fields[i].clone(); let v = *r.pick(&[0u64, 31, 33, 55, 57, 32, 56, 0xffff]); let mut e = vec![]; put(&mut e, v, w, little); b.bytes[o..o + w].copy_from_slice(&e); note.push(format!("e_phentsize={v}")); } }
            2 => { let k = r.range(1, 3) as usize; let l = b.bytes.len(); b.bytes.truncate(l - k.min(l)); note.push(format!("cut_tail={k}")); }
            3 => { if let Some(i) = fidx(&b, "e_shoff") { let (o, w, _) = b.fields[i].clone(); for j in 0..w { b.bytes[o + j] = 0; } note.push("e_shoff=0".into()); } }
            4 => { if let Some(i) = fidx(&b, "e_phoff") { let (o, w, _) = b.fields[i].clone(); for j in 0..w { b.bytes[o + j] = 0; } note.push("e_phoff=0".into()); } }
            _ => {}
        }
        sink.run(x, &json!({"op":"session","family":"locate","what":note}));
        sink.run(x, &sparse_buf_op("file", &b.bytes));
        let es = *r.pick(&["Any", if little { "LE" } else { "BE" }]);
        sink.run(x, &json!({"op":"open","es":es,"fileslot":"file"}));
        sink.run(x, &json!({"op":"q","name":"shdrs_with_strtab"}));
        sink.run(x, &json!({"op":"sopen","es":es,"fileslot":"file","reader":{"chunk":"full","seed":1,"faults":[]}}));
        sink.run(x, &json!({"op":"sq","name":"shdrs_with_strtab"}));
        if nsec < 64 && nseg < 64 {
            for nm in ["symbol_table", "dynamic", "symbol_version_table"] {
                let mut o = json!({"op":"q","name":nm}); if nm == "symbol_version_table" { o["qs"] = json!([]); } sink.run(x, &o);
            }
        }
    }
}

/// C05 (entry-size clause): one of the entsize-checked sections (symtab, dynsym, .dynamic, .gnu.version) declares a
/// wrong sh_entsize; both parsers are asked for the tables that depend on it
pub fn entsize_family(r: &mut Rng, n: u64, x: &mut Exec, sink: &mut Sink) {
    for _ in 0..n {
        let (sp, mut b) = random_elf(r, true);
        let cands: Vec<usize> = sp.secs.iter().enumerate().filter(|(_, s)| [SHT_SYMTAB, SHT_DYNSYM, SHT_DYNAMIC, SHT_GNU_VERSYM].contains(&s.ty)).map(|(i, _)| i).collect();
        let mut note = vec![];
        if !cands.is_empty() && sp.have_shdrs {
            let i = *r.pick(&cands);
            let good = sp.secs[i].entsize;
            let v = *r.pick(&[0u64, good.wrapping_sub(1), good + 1, if sp.class == 32 { good * 3 / 2 } else { good * 2 / 3 }, 0xffff, 1, good]);
            let label = format!("sh{i}.sh_entsize");
            if let Some((off, w, _)) = b.fields.iter().find(|f| f.2 == label).cloned() {
                let mut e = Vec::new(); put(&mut e, v, w, sp.little);
                b.bytes[off..off + w].copy_from_slice(&e);
                note.push(format!("{label}={v} (type {:#x}, good {good})", sp.secs[i].ty));
            }
        }
        sink.run(x, &json!({"op":"session","family":"entsize","what":note}));
        sink.run(x, &file_buf_op("file", &b.bytes));
        let mut qs: Vec<Value> = ["symbol_table", "dynamic_symbol_table", "dynamic", "find_common_data"].iter().map(|n| json!({"name": n})).collect();
        qs.push(json!({"name":"symbol_version_table","qs":[["req", w8(1)], ["def", w8(1)]]}));
        qs[3]["names"] = json!([]);
        let evs = sink.run(x, &json!({"op":"open","es":"Any","fileslot":"file"}));
        if evs.first().map(|e| e["res"]["out"] == "ok").unwrap_or(false) {
            for q in &qs { let mut o = q.clone(); o["op"] = json!("q"); sink.run(x, &o); }
        }
        let evs = sink.run(x, &json!({"op":"sopen","es":"Any","fileslot":"file","reader":{"chunk":"full","seed":1,"faults":[]}}));
        if evs.first().map(|e| e["res"]["out"] == "ok").unwrap_or(false) {
            for q in &qs { if q["name"] == "find_common_data" { continue; } let mut o = q.clone(); o["op"] = json!("sq"); sink.run(x, &o); }
        }
    }
}
