//! notes, hash tables, symbol versions
use crate::exec::*;
use serde_json::Value;
pub fn notes(_x: &mut Exec, _op: &Value) -> Value { unimplemented!() }
pub fn hash_fn(_op: &Value) -> Value { unimplemented!() }
pub fn hash_find(_x: &mut Exec, _op: &Value) -> Value { unimplemented!() }
pub fn ver_iter(_x: &mut Exec, _op: &Value) -> Value { unimplemented!() }
pub fn symver(_x: &mut Exec, _op: &Value) -> Vec<Value> { unimplemented!() }
