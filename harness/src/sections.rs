//! notes, hash tables, symbol versions: executor operations
use crate::alloc::measured;
use crate::exec::*;
use crate::proj::*;
use crate::with_es;
use elf::endian::{AnyEndian, BigEndian, EndianParse, LittleEndian, NativeEndian};
use elf::gnu_symver::{SymbolVersionTable, VerDefAuxIterator, VerDefIterator, VerNeedAuxIterator, VerNeedIterator, VersionIndexTable};
use elf::hash::{GnuHashTable, SysVHashTable};
use elf::note::{Note, NoteIterator};
use elf::string_table::StringTable;
use elf::symbol::SymbolTable;
use serde_json::{json, Value};

pub fn note_proj(base: &[u8], n: &Note<'_>) -> Value {
    match n {
        Note::GnuAbiTag(t) => json!({"k":"abitag","f":t.proj()}),
        Note::GnuBuildId(b) => json!({"k":"buildid","desc":rng(base, b.0)}),
        Note::Unknown(a) => {
            let ns = match a.name_str() {
                Ok(s) => json!({"out":"ok","s":rng(base, s.as_bytes())}),
                Err(_) => json!({"out":"err"}),
            };
            json!({"k":"any","n_type":w8(a.n_type),"name":rng(base, a.name),"desc":rng(base, a.desc),"name_str":ns})
        }
    }
}

/// run a note iterator to its end (standard iteration), allocation-free inside the measured region
pub fn collect_notes<'a, E: EndianParse>(it: NoteIterator<'a, E>) -> (Result<(usize, Vec<Note<'a>>), String>, u64, u64) {
    let mut items: Vec<Note<'a>> = Vec::with_capacity(ITER_CAP);
    let (r, a, m) = measured(|| {
        let mut n = 0usize;
        for x in it {
            if items.len() < ITER_CAP {
                items.push(x);
            }
            n += 1;
            if n > 4 * ITER_CAP {
                break;
            }
        }
        n
    });
    (r.map(|n| (n, items)), a, m)
}

pub fn notes_res(base: &[u8], r: Result<(usize, Vec<Note<'_>>), String>) -> Value {
    match r {
        Ok((n, items)) => json!({"out":"ok","n":n,"items":items.iter().map(|x| note_proj(base, x)).collect::<Vec<_>>()}),
        Err(p) => panic_res(&p),
    }
}

pub fn notes(x: &mut Exec, op: &Value) -> Value {
    let buf = x.buf(op, "buf");
    let class = class_of(&op["class"]);
    let align = rd_w(&op["align"]) as usize;
    let es = op["es"].as_str().unwrap();
    with_es!(es, e => {
        let (r, a, m) = collect_notes(NoteIterator::new(e, class, align, buf));
        let mut res = notes_res(buf, r);
        if op.get("walk").is_some() && res["out"] == "ok" {
            res["walk"] = crate::walk::walk(NoteIterator::new(e, class, align, buf), &op["walk"], &|n: Note<'static>| note_proj(buf, &n));
        }
        event(op, res, a, m)
    })
}

pub fn hash_fn(op: &Value) -> Value {
    let name = rd_bytes(&op["name"]);
    let sysv = op["op"] == "sysv_hash";
    let (r, a, m) = measured(|| if sysv { elf::hash::sysv_hash(&name) } else { elf::hash::gnu_hash(&name) });
    event(op, match r { Ok(h) => json!({"out":"ok","h":w4(h)}), Err(p) => panic_res(&p) }, a, m)
}

pub fn hash_find(x: &mut Exec, op: &Value) -> Value {
    let hb = x.buf(op, "hash");
    let symb = x.buf(op, "sym");
    let strb = x.buf(op, "str");
    let name_owned = rd_bytes(&op["name"]);
    // name_alias = [off, len]: the query is a sub-slice OF THE STRING TABLE BUFFER itself (same bytes as `name`)
    let name: &[u8] = match op.get("name_alias").and_then(|v| v.as_array()) {
        Some(a) => {
            let (o, l) = (a[0].as_u64().unwrap_or(0) as usize, a[1].as_u64().unwrap_or(0) as usize);
            if o + l > strb.len() || strb[o..o + l] != name_owned[..] { panic!("harness: name_alias does not designate the name"); }
            &strb[o..o + l]
        }
        None => &name_owned[..],
    };
    let class = class_of(&op["class"]);
    let es = op["es"].as_str().unwrap();
    let sysv = op["op"] == "sysv_find";
    let hdr_edit: Vec<Value> = op.get("hdr_edit").and_then(|v| v.as_array()).cloned().unwrap_or_default();
    with_es!(es, e => {
        let (r, a, m) = measured(|| {
            let symtab = SymbolTable::new(e, class, symb);
            let strtab = StringTable::new(strb);
            if sysv {
                match SysVHashTable::new(e, class, hb) {
                    Err(er) => (Some(er), None, None),
                    Ok(t) => match t.find(name, &symtab, &strtab) { Ok(v) => (None, Some(v), None), Err(er) => (None, None, Some(er)) },
                }
            } else {
                match GnuHashTable::new(e, class, hb) {
                    Err(er) => (Some(er), None, None),
                    Ok(mut t) => {
                      // `hdr` is a public field: a caller may have written to it before the lookup
                      for ed in hdr_edit.iter() {
                          let v = rd_w(&ed[1]) as u32;
                          match ed[0].as_str().unwrap_or("") {
                              "nbucket" => t.hdr.nbucket = v,
                              "table_start_idx" => t.hdr.table_start_idx = v,
                              "nbloom" => t.hdr.nbloom = v,
                              "nshift" => t.hdr.nshift = v,
                              other => panic!("harness: bad hdr field {other}"),
                          }
                      }
                      match t.find(name, &symtab, &strtab) { Ok(v) => (None, Some(v), None), Err(er) => (None, None, Some(er)) } },
                }
            }
        });
        let res = match r {
            Err(p) => panic_res(&p),
            Ok((Some(er), _, _)) => { let mut v = err(&er); v["at"] = json!("new"); v }
            Ok((_, Some(None), _)) => json!({"out":"none"}),
            Ok((_, Some(Some((i, s))), _)) => json!({"out":"ok","idx":w8(i as u64),"sym":s.proj()}),
            Ok((_, _, Some(er))) => err(&er),
            Ok(_) => json!({"out":"?"}),
        };
        event(op, res, a, m)
    })
}

pub fn ver_iter(x: &mut Exec, op: &Value) -> Value {
    let buf = x.buf(op, "buf");
    let class = class_of(&op["class"]);
    let es = op["es"].as_str().unwrap();
    let count = rd_w(&op["count"]);
    let start = rd_w(&op["start"]) as usize;
    let kind = op["op"].as_str().unwrap();
    const CAP: usize = 1024;
    with_es!(es, e => {
        let mut out: Vec<Value> = Vec::new();
        let (r, a, m);
        match kind {
            "verdef_iter" => {
                let mut items = Vec::with_capacity(CAP);
                let mut auxs: Vec<Vec<elf::gnu_symver::VerDefAux>> = (0..CAP).map(|_| Vec::with_capacity(64)).collect();
                (r, a, m) = measured(|| {
                    let mut n = 0usize;
                    for (vd, ai) in VerDefIterator::new(e, class, count, start, buf) {
                        if n < CAP { for (k, ax) in ai.enumerate() { if k < 64 { auxs[n].push(ax); } else { break; } } items.push(vd); }
                        n += 1;
                        if n > 4 * CAP { break; }
                    }
                    n
                });
                for (i, vd) in items.iter().enumerate() {
                    out.push(json!({"f":vd.proj(),"aux":auxs[i].iter().map(|a| a.proj()).collect::<Vec<_>>()}));
                }
            }
            "verneed_iter" => {
                let mut items = Vec::with_capacity(CAP);
                let mut auxs: Vec<Vec<elf::gnu_symver::VerNeedAux>> = (0..CAP).map(|_| Vec::with_capacity(64)).collect();
                (r, a, m) = measured(|| {
                    let mut n = 0usize;
                    for (vn, ai) in VerNeedIterator::new(e, class, count, start, buf) {
                        if n < CAP { for (k, ax) in ai.enumerate() { if k < 64 { auxs[n].push(ax); } else { break; } } items.push(vn); }
                        n += 1;
                        if n > 4 * CAP { break; }
                    }
                    n
                });
                for (i, vn) in items.iter().enumerate() {
                    out.push(json!({"f":vn.proj(),"aux":auxs[i].iter().map(|a| a.proj()).collect::<Vec<_>>()}));
                }
            }
            "verdaux_iter" => {
                let mut items = Vec::with_capacity(CAP);
                (r, a, m) = measured(|| {
                    let mut n = 0usize;
                    for ax in VerDefAuxIterator::new(e, class, count as u16, start, buf) {
                        if n < CAP { items.push(ax); }
                        n += 1;
                        if n > 4 * CAP { break; }
                    }
                    n
                });
                for ax in items.iter() { out.push(json!({"f":ax.proj()})); }
            }
            _ => {
                let mut items = Vec::with_capacity(CAP);
                (r, a, m) = measured(|| {
                    let mut n = 0usize;
                    for ax in VerNeedAuxIterator::new(e, class, count as u16, start, buf) {
                        if n < CAP { items.push(ax); }
                        n += 1;
                        if n > 4 * CAP { break; }
                    }
                    n
                });
                for ax in items.iter() { out.push(json!({"f":ax.proj()})); }
            }
        }
        let mut res = match r { Ok(n) => json!({"out":"ok","n":n,"items":out}), Err(p) => panic_res(&p) };
        if op.get("walk").is_some() && res["out"] == "ok" {
            let w = &op["walk"];
            res["walk"] = match kind {
                "verdef_iter" => crate::walk::walk(VerDefIterator::new(e, class, count, start, buf), w, &|(vd, _)| vd.proj()),
                "verneed_iter" => crate::walk::walk(VerNeedIterator::new(e, class, count, start, buf), w, &|(vn, _)| vn.proj()),
                "verdaux_iter" => crate::walk::walk(VerDefAuxIterator::new(e, class, count as u16, start, buf), w, &|ax| ax.proj()),
                _ => crate::walk::walk(VerNeedAuxIterator::new(e, class, count as u16, start, buf), w, &|ax| ax.proj()),
            };
        }
        event(op, res, a, m)
    })
}

pub fn req_proj(strb: &[u8], r: &elf::gnu_symver::SymbolRequirement<'_>) -> Value {
    json!({"out":"ok","file":rng(strb, r.file.as_bytes()),"name":rng(strb, r.name.as_bytes()),
           "hash":w4(r.hash),"flags":w2(r.flags),"hidden":r.hidden})
}

/// queries on one SymbolVersionTable object; qs = [["req"|"def", W8 index], ...]
pub fn symver_queries<'a, E: EndianParse>(
    t: &SymbolVersionTable<'a, E>, qs: &[Value], need_str: &[u8], def_str: &[u8],
) -> Vec<Value> {
    let mut evs = Vec::new();
    for q in qs {
        let what = q[0].as_str().unwrap_or("req");
        let i = rd_w(&q[1]) as usize;
        let sop = json!({"op": format!("symver_{what}"), "i": q[1].clone()});
        if what == "req" {
            let (r, a, m) = measured(|| t.get_requirement(i));
            let res = match r {
                Err(p) => panic_res(&p),
                Ok(Err(e)) => err(&e),
                Ok(Ok(None)) => json!({"out":"none"}),
                Ok(Ok(Some(rq))) => req_proj(need_str, &rq),
            };
            evs.push(event(&sop, res, a, m));
        } else {
            let mut names: Vec<Result<&str, elf::ParseError>> = Vec::with_capacity(256);
            let (r, a, m) = measured(|| {
                t.get_definition(i).map(|o| o.map(|d| {
                    let (h, f, hid) = (d.hash, d.flags, d.hidden);
                    let mut n = 0usize;
                    for nm in d.names { if names.len() < 256 { names.push(nm); } n += 1; if n > 1024 { break; } }
                    (h, f, hid, n)
                }))
            });
            let res = match r {
                Err(p) => panic_res(&p),
                Ok(Err(e)) => err(&e),
                Ok(Ok(None)) => json!({"out":"none"}),
                Ok(Ok(Some((h, f, hid, n)))) => json!({"out":"ok","hash":w4(h),"flags":w2(f),"hidden":hid,"n":n,
                    "names": names.iter().map(|x| match x { Ok(s) => json!({"out":"ok","s":rng(def_str, s.as_bytes())}), Err(_) => json!({"out":"err"}) }).collect::<Vec<_>>()}),
            };
            evs.push(event(&sop, res, a, m));
        }
    }
    evs
}

pub fn symver(x: &mut Exec, op: &Value) -> Vec<Value> {
    let class = class_of(&op["class"]);
    let es = op["es"].as_str().unwrap();
    let versym = x.buf(op, "versym");
    let need = op.get("need").filter(|v| v.is_object()).map(|n| (x.buf(n, "buf"), rd_w(&n["count"]), x.buf(n, "str")));
    let def = op.get("def").filter(|v| v.is_object()).map(|n| (x.buf(n, "buf"), rd_w(&n["count"]), x.buf(n, "str")));
    let qs: Vec<Value> = op["q"].as_array().cloned().unwrap_or_default();
    let mut head = op.as_object().cloned().unwrap();
    head.remove("q");
    head.remove("exp");
    head.insert("op".into(), json!("symver_new"));
    let mut evs = vec![Value::Object(head)];
    with_es!(es, e => {
        let ids = VersionIndexTable::new(e, class, versym);
        let vn = need.map(|(b, c, s)| (VerNeedIterator::new(e, class, c, 0, b), StringTable::new(s)));
        let vd = def.map(|(b, c, s)| (VerDefIterator::new(e, class, c, 0, b), StringTable::new(s)));
        let t = SymbolVersionTable::new(ids, vn, vd);
        evs.extend(symver_queries(&t, &qs, need.map(|n| n.2).unwrap_or(&[]), def.map(|d| d.2).unwrap_or(&[])));
    });
    evs
}
