//! ElfStream sessions over an instrumented, scriptable Read+Seek.
use crate::alloc::{measured, paused};
use crate::elffile::*;
use crate::exec::*;
use crate::proj::*;
use elf::endian::{AnyEndian, BigEndian, EndianParse, LittleEndian};
use elf::note::Note;
use elf::ElfStream;
use serde_json::{json, Value};
use std::cell::RefCell;
use std::io::{Error, ErrorKind, Read, Seek, SeekFrom};
use std::rc::Rc;

/// One recorded I/O call.  Kept as plain numbers while the crate call is in flight (the reader runs inside the
/// measured call: a million one-byte reads must not cost a million JSON maps there); `take_io` renders them.
pub enum IoRec {
    Read { at: u64, want: u64, got: i64, f: Option<&'static str> },
    SeekTo(u64),
    SeekFail(&'static str),
}
impl IoRec {
    fn json(&self) -> Value {
        match self {
            IoRec::Read { at, want, got, f: Some(f) } => json!({"op":"read","at":at,"want":want,"got":got,"f":f}),
            IoRec::Read { at, want, got, f: None } => json!({"op":"read","at":at,"want":want,"got":got}),
            IoRec::SeekTo(to) => json!({"op":"seek","to":to}),
            IoRec::SeekFail(f) => json!({"op":"seek","f":f}),
        }
    }
}

#[derive(Default)]
pub struct Ctl {
    pub log: Vec<IoRec>,
    pub calls: u64,                  // I/O calls made so far on this reader (reads + seeks)
    pub faults: Vec<(u64, String)>,  // (absolute I/O call index, kind): error | eof | short | interrupted
    pub perm_from: Option<u64>,      // every I/O call from this index on fails
    pub chunk: String,               // full | one | rand
    pub rng: u64,
    pub hard_fault: bool,            // a hard fault (error / premature EOF) was delivered since last reset
    pub steps: std::collections::VecDeque<Value>, // explicit environment script for the next I/O calls (from a TLC behaviour)
    pub drift: bool,                 // the implementation's I/O pattern left the script (informational)
}

pub struct ScriptedReader {
    pub data: &'static [u8],
    pub pos: u64,
    pub ctl: Rc<RefCell<Ctl>>,
}

impl std::fmt::Debug for ScriptedReader {
    fn fmt(&self, f: &mut std::fmt::Formatter<'_>) -> std::fmt::Result { write!(f, "ScriptedReader@{}", self.pos) }
}

fn next_rand(c: &mut Ctl) -> u64 {
    c.rng ^= c.rng << 13;
    c.rng ^= c.rng >> 7;
    c.rng ^= c.rng << 17;
    c.rng
}

impl ScriptedReader {
    fn fault_now(c: &mut Ctl) -> Option<String> {
        let idx = c.calls;
        c.calls += 1;
        if let Some(p) = c.perm_from {
            if idx >= p {
                return Some("error".into());
            }
        }
        if let Some(k) = c.faults.iter().position(|(i, _)| *i == idx) {
            return Some(c.faults[k].1.clone());
        }
        None
    }
}

impl Read for ScriptedReader {
    fn read(&mut self, buf: &mut [u8]) -> std::io::Result<usize> {
        paused(|| self.read_inner(buf))
    }
}
impl ScriptedReader {
    fn read_inner(&mut self, buf: &mut [u8]) -> std::io::Result<usize> {
        let mut c = self.ctl.borrow_mut();
        let mut f = Self::fault_now(&mut c);
        let want = buf.len();
        let mut forced: Option<usize> = None;
        if let Some(st) = c.steps.pop_front() {
            if let Some(k) = st.as_u64() { forced = Some(k as usize); }
            else { match st.as_str() { Some("intr") => f = Some("interrupted".into()), Some("err") => f = Some("error".into()),
                                       Some("eof") => f = Some("eof".into()), _ => { c.drift = true; } } }
        }
        let avail = (self.data.len() as u64).saturating_sub(self.pos) as usize;
        match f.as_deref() {
            Some(k @ ("error" | "wouldblock" | "timedout" | "brokenpipe" | "unexpectedeof")) => {
                c.hard_fault = true;
                let (kind, ks) = match k { "wouldblock" => (ErrorKind::WouldBlock, "wouldblock"), "timedout" => (ErrorKind::TimedOut, "timedout"),
                                           "brokenpipe" => (ErrorKind::BrokenPipe, "brokenpipe"), "unexpectedeof" => (ErrorKind::UnexpectedEof, "unexpectedeof"),
                                           _ => (ErrorKind::Other, "error") };
                c.log.push(IoRec::Read { at: self.pos, want: want as u64, got: -1, f: Some(ks) });
                return Err(Error::new(kind, "injected"));
            }
            Some("eof") => {
                if want > 0 { c.hard_fault = true; }
                c.log.push(IoRec::Read { at: self.pos, want: want as u64, got: 0, f: Some("eof") });
                return Ok(0);
            }
            Some("interrupted") => {
                c.log.push(IoRec::Read { at: self.pos, want: want as u64, got: -2, f: Some("interrupted") });
                return Err(Error::new(ErrorKind::Interrupted, "injected"));
            }
            _ => {}
        }
        let mut n = want.min(avail);
        if let Some(k) = forced { if k >= 1 && k <= n { n = k; } else { c.drift = true; } }
        let short = f.as_deref() == Some("short");
        if n > 1 && forced.is_none() {
            match c.chunk.as_str() {
                "one" => n = 1,
                "rand" => n = 1 + (next_rand(&mut c) % n as u64) as usize,
                _ => {}
            }
            if short { n = 1.max(n / 2); }
        }
        buf[..n].copy_from_slice(&self.data[self.pos as usize..self.pos as usize + n]);
        c.log.push(IoRec::Read { at: self.pos.min(i32::MAX as u64), want: want.min(i32::MAX as usize) as u64, got: n as i64, f: None });
        self.pos += n as u64;
        Ok(n)
    }
}

impl Seek for ScriptedReader {
    fn seek(&mut self, to: SeekFrom) -> std::io::Result<u64> {
        paused(|| self.seek_inner(to))
    }
}
impl ScriptedReader {
    fn seek_inner(&mut self, to: SeekFrom) -> std::io::Result<u64> {
        let mut c = self.ctl.borrow_mut();
        let mut f = Self::fault_now(&mut c);
        if let Some(st) = c.steps.pop_front() {
            match st.as_str() { Some("seek_ok") => {}, Some("seek_fail") => f = Some("error".into()), _ => { c.drift = true; } }
        }
        if matches!(f.as_deref(), Some("error") | Some("eof") | Some("wouldblock") | Some("timedout") | Some("brokenpipe") | Some("unexpectedeof")) {
            c.hard_fault = true;
            c.log.push(IoRec::SeekFail("error"));
            // where a stream is after a failed seek is unspecified: half of the time the cursor HAS moved (to the
            // target, or somewhere else) although the call reports failure
            match next_rand(&mut c) % 4 {
                0 => { if let SeekFrom::Start(o) = to { self.pos = o; } }
                1 => { self.pos = self.pos.wrapping_add(1 + next_rand(&mut c) % 64).min(self.data.len() as u64); }
                _ => {}
            }
            return Err(Error::new(ErrorKind::Other, "injected"));
        }
        let np: i128 = match to {
            SeekFrom::Start(o) => o as i128,
            SeekFrom::End(o) => self.data.len() as i128 + o as i128,
            SeekFrom::Current(o) => self.pos as i128 + o as i128,
        };
        if np < 0 {
            c.log.push(IoRec::SeekFail("negative"));
            return Err(Error::new(ErrorKind::InvalidInput, "negative seek"));
        }
        self.pos = np as u64;
        c.log.push(IoRec::SeekTo(self.pos.min(i32::MAX as u64)));      // keep logged numbers inside 31 bits
        Ok(self.pos)
    }
}

pub enum StreamSession {
    LE(ElfStream<LittleEndian, ScriptedReader>, Rc<RefCell<Ctl>>),
    BE(ElfStream<BigEndian, ScriptedReader>, Rc<RefCell<Ctl>>),
    Any(ElfStream<AnyEndian, ScriptedReader>, Rc<RefCell<Ctl>>),
}

fn take_io(ctl: &Rc<RefCell<Ctl>>) -> (Value, bool) {
    let mut c = ctl.borrow_mut();
    let log = std::mem::take(&mut c.log);
    let hf = c.hard_fault;
    c.hard_fault = false;
    (Value::Array(log.iter().map(|r| r.json()).collect()), hf)
}

fn sevent(op: &Value, res: Value, a: u64, m: u64, ctl: &Rc<RefCell<Ctl>>) -> Value {
    let (io, hf) = take_io(ctl);
    let mut e = event(op, res, a, m);
    e["io"] = io;
    e["faulted"] = json!(hf);
    {
        let mut c = ctl.borrow_mut();
        e["drift"] = json!(c.drift || !c.steps.is_empty());
        c.drift = false;
        c.steps.clear();
    }
    e["calls"] = json!(ctl.borrow().calls);
    e
}

fn mres<T>(r: Result<Result<T, elf::ParseError>, String>, f: impl FnOnce(T) -> Value) -> Value {
    match r {
        Err(p) => panic_res(&p),
        Ok(Err(e)) => err(&e),
        Ok(Ok(v)) => f(v),
    }
}

/// n caller-made section_data reads of n distinct ranges (spec/Bulk.tla); one event, no I/O log
fn stream_bulk<E: EndianParse>(es: &mut ElfStream<E, ScriptedReader>, ctl: &Rc<RefCell<Ctl>>, op: &Value) -> Value {
    let n = op["n"].as_u64().unwrap_or(0);
    let m = op["m"].as_u64().unwrap_or(1).max(1);
    // size0 > 0: every range is size0 bytes longer (histories that put 2^24 .. 2^30 bytes into the cache); no checksum then
    let size0 = op.get("size0").and_then(|v| v.as_u64()).unwrap_or(0);
    let (r, a, mx) = measured(|| {
        let (mut nok, mut sum) = (0u64, 0u64);
        for k in 0..n {
            crate::alloc::heartbeat();      // each range is one public call of its own
            let sh = elf::section::SectionHeader { sh_name: 0, sh_type: 1, sh_flags: 0, sh_addr: 0, sh_offset: k % m, sh_size: size0 + 1 + k / m,
                                                   sh_link: 0, sh_info: 0, sh_addralign: 1, sh_entsize: 0 };
            if let Ok((d, _)) = es.section_data(&sh) {
                nok += 1;
                if size0 == 0 { sum = (sum + d.iter().map(|b| *b as u64).sum::<u64>()) % 65521; }
            }
        }
        (nok, sum)
    });
    let _ = take_io(ctl);
    event(op, match r { Ok((nok, sum)) => json!({"out":"ok","nok":nok,"sum":sum}), Err(p) => panic_res(&p) }, a, mx)
}

fn stream_q<E: EndianParse>(es: &mut ElfStream<E, ScriptedReader>, ctl: &Rc<RefCell<Ctl>>, op: &Value) -> Value {
    let name = op["name"].as_str().unwrap_or("");
    match name {
        "shdrs_with_strtab" => {
            let (r, a, m) = measured(|| es.section_headers_with_strtab().map(|(sh, st)| paused(|| (sh.len(), st.map(|s| strtab_proj(None, &s))))));
            sevent(op, mres(r, |(_n, st)| json!({"out":"ok","sh_some":true,"strtab": st.unwrap_or(json!({"some":false}))})), a, m, ctl)
        }
        "shdr_by_name" => {
            let nm = rd_bytes(&op["qname"]);
            let s = String::from_utf8(nm).unwrap_or_default();
            let (r, a, m) = measured(|| es.section_header_by_name(&s).map(|o| o.copied()));
            sevent(op, mres(r, |o| match o { Some(h) => json!({"out":"ok","f":h.proj()}), None => json!({"out":"none"}) }), a, m, ctl)
        }
        "section_data" => {
            let sh = shdr_from(&op["shdr"]);
            let (r, a, m) = measured(|| es.section_data(&sh).map(|(d, c)| paused(|| (data_proj(None, d), c))));
            sevent(op, mres(r, |(d, c)| json!({"out":"ok","data":d,
                "chdr": match c { Some(c) => json!({"some":true,"f":c.proj()}), None => json!({"some":false}) }})), a, m, ctl)
        }
        "section_data_as_strtab" => {
            let sh = shdr_from(&op["shdr"]);
            let (r, a, m) = measured(|| es.section_data_as_strtab(&sh).map(|s| paused(|| strtab_proj(None, &s))));
            sevent(op, mres(r, |s| json!({"out":"ok","str":s})), a, m, ctl)
        }
        "section_data_as_rels" => {
            let sh = shdr_from(&op["shdr"]);
            let (r, a, m) = measured(|| es.section_data_as_rels(&sh).map(|it| paused(|| it.take(ITER_CAP).map(|x| x.proj()).collect::<Vec<_>>())));
            sevent(op, mres(r, |v| json!({"out":"ok","n":v.len(),"items":v})), a, m, ctl)
        }
        "section_data_as_relas" => {
            let sh = shdr_from(&op["shdr"]);
            let (r, a, m) = measured(|| es.section_data_as_relas(&sh).map(|it| paused(|| it.take(ITER_CAP).map(|x| x.proj()).collect::<Vec<_>>())));
            sevent(op, mres(r, |v| json!({"out":"ok","n":v.len(),"items":v})), a, m, ctl)
        }
        "section_data_as_notes" | "segment_data_as_notes" => {
            let (r, a, m) = measured(|| {
                let it = if name == "section_data_as_notes" { es.section_data_as_notes(&shdr_from(&op["shdr"])) } else { es.segment_data_as_notes(&phdr_from(&op["phdr"])) };
                it.map(|it| paused(|| it.take(ITER_CAP).collect::<Vec<Note<'_>>>().iter().map(|n| note_rel(n)).collect::<Vec<Value>>()))
            });
            sevent(op, mres(r, |v| json!({"out":"ok","n":v.len(),"items":v})), a, m, ctl)
        }
        "symbol_table" | "dynamic_symbol_table" => {
            let (r, a, m) = measured(|| {
                let t = if name == "symbol_table" { es.symbol_table() } else { es.dynamic_symbol_table() };
                t.map(|o| o.map(|(sy, st)| paused(|| (tbl_proj(&sy), strtab_proj(None, &st)))))
            });
            sevent(op, mres(r, |o| match o { None => json!({"out":"none"}), Some((sy, st)) => json!({"out":"ok","sym":sy,"str":st}) }), a, m, ctl)
        }
        "dynamic" => {
            let (r, a, m) = measured(|| es.dynamic().map(|o| o.map(|t| paused(|| tbl_proj(&t)))));
            sevent(op, mres(r, |o| match o { None => json!({"out":"none"}), Some(t) => json!({"out":"ok","tbl":t}) }), a, m, ctl)
        }
        "symbol_version_table" => {
            let qs: Vec<Value> = op["qs"].as_array().cloned().unwrap_or_default();
            let (r, a, m) = measured(|| es.symbol_version_table().map(|o| o.map(|t| paused(|| symver_embedded(&t, &qs, None).0))));
            sevent(op, mres(r, |o| match o { None => json!({"out":"none"}), Some(q) => json!({"out":"ok","qs":q}) }), a, m, ctl)
        }
        other => panic!("harness: unknown stream query {other}"),
    }
}

/// notes handed out by the stream parser point into its private buffers: report name/desc by
/// length and content checksum instead of position
fn note_rel(n: &Note<'_>) -> Value {
    match n {
        Note::GnuAbiTag(t) => json!({"k":"abitag","f":t.proj()}),
        Note::GnuBuildId(b) => json!({"k":"buildid","desc":{"len":b.0.len(),"ck":ck(b.0)}}),
        Note::Unknown(a) => json!({"k":"any","n_type":w8(a.n_type),"name":{"len":a.name.len(),"ck":ck(a.name)},
            "desc":{"len":a.desc.len(),"ck":ck(a.desc)},
            "name_str": match a.name_str() { Ok(s) => json!({"out":"ok","len":s.len()}), Err(_) => json!({"out":"err"}) }}),
    }
}

fn open_res<E: EndianParse>(es: &ElfStream<E, ScriptedReader>) -> Value {
    json!({"out":"ok","ehdr":ehdr_proj(&es.ehdr),"sh":vec_proj(es.section_headers()),"ph":vec_proj(es.segments())})
}

fn parse_faults(v: &Value, base: u64) -> Vec<(u64, String)> {
    v.as_array().map(|a| a.iter().map(|f| (base + f[0].as_u64().unwrap_or(0), f[1].as_str().unwrap_or("error").to_string())).collect()).unwrap_or_default()
}

pub fn stream_op(x: &mut Exec, op: &Value) -> Vec<Value> {
    if op["op"] == "sopen" {
        let data = x.buf(op, "file");
        let es = op["es"].as_str().unwrap_or("Any");
        let rd = &op["reader"];
        let ctl = Rc::new(RefCell::new(Ctl {
            chunk: rd["chunk"].as_str().unwrap_or("full").to_string(),
            rng: rd["seed"].as_u64().unwrap_or(1) | 1,
            faults: parse_faults(&rd["faults"], 0),
            perm_from: rd["perm_from"].as_u64(),
            ..Default::default()
        }));
        x.stream = None;
        macro_rules! open_as {
            ($E:ty, $V:ident) => {{
                let reader = ScriptedReader { data, pos: 0, ctl: ctl.clone() };
                let (r, a, m) = measured(|| ElfStream::<$E, _>::open_stream(reader));
                match r {
                    Err(p) => sevent(op, panic_res(&p), a, m, &ctl),
                    Ok(Err(e)) => sevent(op, err(&e), a, m, &ctl),
                    Ok(Ok(s)) => { let v = open_res(&s); x.stream = Some(StreamSession::$V(s, ctl.clone())); sevent(op, v, a, m, &ctl) }
                }
            }};
        }
        let ev = match es {
            "LE" | "Native" => open_as!(LittleEndian, LE),
            "BE" => open_as!(BigEndian, BE),
            _ => open_as!(AnyEndian, Any),
        };
        return vec![ev];
    }
    // new fault schedule for the calls that follow (indices relative to the I/O calls made so far)
    let set_faults = |ctl: &Rc<RefCell<Ctl>>| {
        if let Some(f) = op.get("faults") {
            let mut c = ctl.borrow_mut();
            let base = c.calls;
            c.faults = parse_faults(f, base);
            c.perm_from = op.get("perm_from").and_then(|v| v.as_u64()).map(|v| base + v);
        }
        if let Some(st) = op.get("steps").and_then(|v| v.as_array()) {
            ctl.borrow_mut().steps = st.iter().cloned().collect();
        }
        if let Some(ch) = op.get("chunk").and_then(|v| v.as_str()) {
            ctl.borrow_mut().chunk = ch.to_string();
        }
    };
    if op["op"] == "sbulk" {
        return match &mut x.stream {
            None => vec![event(op, json!({"out":"closed"}), 0, 0)],
            Some(StreamSession::LE(s, c)) => vec![stream_bulk(s, c, op)],
            Some(StreamSession::BE(s, c)) => vec![stream_bulk(s, c, op)],
            Some(StreamSession::Any(s, c)) => vec![stream_bulk(s, c, op)],
        };
    }
    match &mut x.stream {
        None => vec![event(op, json!({"out":"closed"}), 0, 0)],
        Some(StreamSession::LE(s, c)) => { set_faults(c); vec![stream_q(s, c, op)] }
        Some(StreamSession::BE(s, c)) => { set_faults(c); vec![stream_q(s, c, op)] }
        Some(StreamSession::Any(s, c)) => { set_faults(c); vec![stream_q(s, c, op)] }
    }
}
