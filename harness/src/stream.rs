//! ElfStream sessions over an instrumented, scriptable reader
use crate::exec::*;
use serde_json::Value;
pub struct StreamSession {}
pub fn stream_op(_x: &mut Exec, _op: &Value) -> Vec<Value> { unimplemented!() }
