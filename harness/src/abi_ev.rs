//! C19: exported constants (compiled values), C-layout structures (size / field offsets), to_str helpers.
use crate::exec::Exec;
use crate::proj::*;
use crate::rng::Rng;
use crate::Sink;
use core::mem::{offset_of, size_of};
use serde_json::{json, Value};

include!(concat!(env!("OUT_DIR"), "/abi_consts.rs"));

macro_rules! layout {
    ($t:ty, $ty:expr, $class:expr, $($f:ident),*) => {
        json!({"op":"abi_struct","name":stringify!($t),"ty":$ty,"class":$class,"size":size_of::<$t>(),
               "offsets": {$(stringify!($f): offset_of!($t, $f)),*}})
    };
}

fn sval(v: u64, ty: &str) -> Value {
    // 8-byte two's complement word: signed types were sign-extended by `as u64`, others zero-extended
    let _ = ty;
    w8(v)
}

pub fn run(r: &mut Rng, _n: u64, x: &mut Exec, sink: &mut Sink) {
    use elf::compression::*;
    use elf::dynamic::*;
    use elf::file::*;
    use elf::relocation::*;
    use elf::section::*;
    use elf::segment::*;
    use elf::symbol::*;
    for (name, ty, v) in ABI_CONSTS.iter() {
        sink.run(x, &json!({"op":"abi_const","name":name,"ty":ty,"val":sval(*v, ty)}));
    }
    let structs = vec![
        layout!(Elf32_Ehdr, "ehdr", 32, e_ident, e_type, e_machine, e_version, e_entry, e_phoff, e_shoff, e_flags, e_ehsize, e_phentsize, e_phnum, e_shentsize, e_shnum, e_shstrndx),
        layout!(Elf64_Ehdr, "ehdr", 64, e_ident, e_type, e_machine, e_version, e_entry, e_phoff, e_shoff, e_flags, e_ehsize, e_phentsize, e_phnum, e_shentsize, e_shnum, e_shstrndx),
        layout!(Elf32_Shdr, "shdr", 32, sh_name, sh_type, sh_flags, sh_addr, sh_offset, sh_size, sh_link, sh_info, sh_addralign, sh_entsize),
        layout!(Elf64_Shdr, "shdr", 64, sh_name, sh_type, sh_flags, sh_addr, sh_offset, sh_size, sh_link, sh_info, sh_addralign, sh_entsize),
        layout!(Elf32_Phdr, "phdr", 32, p_type, p_offset, p_vaddr, p_paddr, p_filesz, p_memsz, p_flags, p_align),
        layout!(Elf64_Phdr, "phdr", 64, p_type, p_flags, p_offset, p_vaddr, p_paddr, p_filesz, p_memsz, p_align),
        layout!(Elf32_Sym, "sym", 32, st_name, st_value, st_size, st_info, st_other, st_shndx),
        layout!(Elf64_Sym, "sym", 64, st_name, st_info, st_other, st_shndx, st_value, st_size),
        layout!(Elf32_Rel, "rel", 32, r_offset, r_info),
        layout!(Elf64_Rel, "rel", 64, r_offset, r_info),
        layout!(Elf32_Rela, "rela", 32, r_offset, r_info, r_addend),
        layout!(Elf64_Rela, "rela", 64, r_offset, r_info, r_addend),
        layout!(Elf32_Dyn, "dyn", 32, d_tag, d_un),
        layout!(Elf64_Dyn, "dyn", 64, d_tag, d_un),
        layout!(Elf32_Chdr, "chdr", 32, ch_type, ch_size, ch_addralign),
        layout!(Elf64_Chdr, "chdr", 64, ch_type, ch_reserved, ch_size, ch_addralign),
    ];
    for s in structs {
        sink.run(x, &s);
    }
    // to_str helpers: u8/u16 domains exhaustively; u32/i64 over all constant values +-1 and random values
    use elf::to_str::*;
    let tr = |f: &str, arg: u64, s: Option<&'static str>| -> Value {
        json!({"op":"to_str","fn":f,"arg":w8(arg),"res": match s { Some(n) => json!({"out":"ok","s":n}), None => json!({"out":"none"}) }})
    };
    let ts = |f: &str, arg: u64, s: String| -> Value {
        json!({"op":"to_string","fn":f,"arg":w8(arg),"s":s,"has_dec":s.contains(&format!("{arg}")),
               "has_hex":s.to_lowercase().contains(&format!("{arg:x}"))})
    };
    for v in 0..=255u64 {
        sink.run(x, &tr("e_osabi_to_str", v, e_osabi_to_str(v as u8)));
        sink.run(x, &tr("st_symtype_to_str", v, st_symtype_to_str(v as u8)));
        sink.run(x, &tr("st_bind_to_str", v, st_bind_to_str(v as u8)));
        sink.run(x, &tr("st_vis_to_str", v, st_vis_to_str(v as u8)));
        sink.run(x, &ts("e_osabi_to_string", v, e_osabi_to_string(v as u8)));
        sink.run(x, &ts("st_symtype_to_string", v, st_symtype_to_string(v as u8)));
        sink.run(x, &ts("st_bind_to_string", v, st_bind_to_string(v as u8)));
        sink.run(x, &ts("st_vis_to_string", v, st_vis_to_string(v as u8)));
    }
    for v in 0..=65535u64 {
        let (a, b) = (e_type_to_str(v as u16), e_machine_to_str(v as u16));
        // unknown values far from any constant are sampled to keep the trace small
        if a.is_some() || b.is_some() || v < 512 || v % 251 == 0 || v > 65000 {
            sink.run(x, &tr("e_type_to_str", v, a));
            sink.run(x, &tr("e_machine_to_str", v, b));
            sink.run(x, &ts("e_type_to_string", v, e_type_to_string(v as u16)));
            sink.run(x, &ts("e_machine_to_string", v, e_machine_to_string(v as u16)));
        }
    }
    let mut vals: Vec<u64> = Vec::new();
    for (_, _, v) in ABI_CONSTS.iter() {
        for d in [0u64, 1, u64::MAX] { vals.push(v.wrapping_add(d)); }
        // the same low bits with garbage above them: a helper that matches on a truncated value shows here
        for hi in [1u64 << 8, 1 << 16, 1 << 31, 1 << 32, 1 << 63] { vals.push(v | hi); vals.push(v.wrapping_add(hi)); }
        // ... and every way of keeping only the low 8/16/32 bits: all-ones above (a sign-extended or negative
        // argument), one bit just above, and the low part alone
        for w in [8u32, 16, 32] {
            let m = (1u64 << w) - 1;
            let low = v & m;
            for x in [low | !m, low | (1u64 << w), low, v | !m, v.wrapping_sub(1u64 << w)] { vals.push(x); }
        }
    }
    // every value the reference gives to ANY name (also the names the crate does not export)
    vals.extend(crate::abiref_vals::ABIREF_VALUES.iter().copied());
    // thorough tier: every single-bit neighbour of every exported constant
    if std::env::var("VERIF_TIER").map(|t| t == "thorough").unwrap_or(false) {
        for (_, _, v) in ABI_CONSTS.iter() { for b in 0..64 { vals.push(v ^ (1u64 << b)); } }
    }
    for _ in 0..500 { vals.push(r.edge64()); }
    vals.sort(); vals.dedup();
    for v in vals {
        let v32 = v as u32;
        if v <= u32::MAX as u64 {
            sink.run(x, &tr("sh_type_to_str", v, sh_type_to_str(v32)));
            sink.run(x, &tr("p_type_to_str", v, p_type_to_str(v32)));
            sink.run(x, &tr("ch_type_to_str", v, ch_type_to_str(v32)));
            if v % 7 == 0 || sh_type_to_str(v32).is_some() || p_type_to_str(v32).is_some() {
                sink.run(x, &ts("sh_type_to_string", v, sh_type_to_string(v32)));
                sink.run(x, &ts("p_type_to_string", v, p_type_to_string(v32)));
            }
        }
        sink.run(x, &tr("d_tag_to_str", v, d_tag_to_str(v as i64)));
    }
}
