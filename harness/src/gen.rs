//! Independent input generators (no oracle): they only decide what to call with which arguments.
use crate::exec::Exec;
use crate::gen2::put;
use crate::proj::*;
use crate::rng::Rng;
use crate::Sink;
use serde_json::{json, Value};

pub const ES_VALUES: [&str; 5] = ["LE", "BE", "AnyL", "AnyB", "Native"];
pub const ES_SPECS: [&str; 4] = ["LE", "BE", "Any", "Native"];
pub const TYPES: [&str; 17] = [
    "shdr", "phdr", "sym", "rel", "rela", "dyn", "chdr", "abitag", "sysvhdr", "gnuhdr", "u32", "u64", "versym",
    "verdef", "verdaux", "verneed", "vernaux",
];

pub fn size_of(ty: &str, class: u64) -> usize {
    let c32 = class == 32;
    match ty {
        "shdr" => if c32 { 40 } else { 64 },
        "phdr" => if c32 { 32 } else { 56 },
        "sym" => if c32 { 16 } else { 24 },
        "rel" => if c32 { 8 } else { 16 },
        "rela" => if c32 { 12 } else { 24 },
        "dyn" => if c32 { 8 } else { 16 },
        "chdr" => if c32 { 12 } else { 24 },
        "abitag" => 16,
        "sysvhdr" => 8,
        "gnuhdr" => 16,
        "u32" => 4,
        "u64" => 8,
        "versym" => 2,
        "verdef" => 20,
        "verdaux" => 8,
        "verneed" => 16,
        "vernaux" => 16,
        _ => 8,
    }
}

/// an argument that becomes the valid value `v` when only its low 8/16/31/32/33 bits are kept
pub fn alias(r: &mut Rng, v: u64) -> u64 {
    let k = *r.pick(&[8u32, 16, 31, 32, 32, 33, 48, 60, 61, 62, 63]);
    let m = (1u64 << k) - 1;
    (v & m) | match r.below(3) { 0 => 1u64 << k, 1 => !m, _ => (r.next() | 1) << k }
}

pub fn edge_off(r: &mut Rng, len: usize) -> u64 {
    match r.below(9) {
        8 => { let v = r.below(len as u64 + 1); alias(r, v) }
        0 => u64::MAX - r.below(9),
        1 => r.edge64(),
        2 => len as u64 + r.below(10),
        3 => (len as u64).saturating_sub(r.below(9)),
        _ => r.below(len as u64 + 1),
    }
}

/// bytes with a bias to boundary patterns (top bits set, all ones, zero)
pub fn edgy_bytes(r: &mut Rng, n: usize) -> Vec<u8> {
    match r.below(6) {
        0 => vec![0xff; n],
        1 => vec![0; n],
        2 => (0..n).map(|i| 0x80u8.wrapping_add(i as u8)).collect(),
        3 => (0..n).map(|_| *r.pick(&[0u8, 1, 0x7f, 0x80, 0xff])).collect(),
        _ => r.bytes(n),
    }
}

/// a walk over one iterator object (spec/Iter.tla): next()/nth(k) calls, then one consuming call
pub fn walk_script(r: &mut Rng, nent: usize) -> Value {
    let mut w: Vec<Value> = Vec::new();
    let big = nent > 2048;          // long lists: only walks whose observations stay short
    let kk = |r: &mut Rng| -> u64 {
        match r.below(8) {
            0 => u64::MAX - r.below(2),
            1 => nent as u64 + r.below(2),
            2 => (nent as u64).saturating_sub(1 + r.below(2)),
            3 => r.edge64(),
            4 if big => *r.pick(&[254u64, 255, 256, 65534, 65535, 65536]),
            _ => r.below(4),
        }
    };
    // sometimes: run off the end first, then look at the iterator ({:?}, size_hint) before the consuming call
    if r.chance(1, 6) { w.push(json!(["nth", w8(u64::MAX - r.below(2))])); w.push(json!(["debug", w8(0)])); }
    for _ in 0..r.below(4) {
        match r.below(5) {
            0 | 1 => w.push(json!(["next", w8(0)])),
            2 => w.push(json!([*r.pick(&["size_hint", "debug"]), w8(0)])),
            _ => { let k = kk(r); w.push(json!(["nth", w8(k)])); }
        }
    }
    let k = kk(r);
    w.push(match r.below(10) {
        9 if !big => json!(["collect", w8(0)]),
        0 if !big => json!(["rest", w8(0)]),
        1 if !big => json!(["fold", w8(0)]),
        2 | 3 => json!(["skip", w8(if big { k.max(nent as u64 - r.below(300)) } else { k })]),
        4 | 5 => json!(["step_by", w8(if big { k.max(nent as u64 / 300 + 1) } else { k.max(1) })]),
        6 => json!(["count", w8(0)]),
        7 => json!(["last", w8(0)]),
        _ => json!(["nth", w8(k)]),
    });
    Value::Array(w)
}

pub fn run(fam: &str, seed: u64, n: u64, x: &mut Exec, sink: &mut Sink) {
    let mut r = Rng::new(seed ^ fam.bytes().fold(0u64, |a, b| a.wrapping_mul(131).wrapping_add(b as u64)));
    sink.run(x, &json!({"op":"session","family":fam,"seed":seed}));
    match fam {
        "readint" => {
            for _ in 0..n {
                let len = r.below(13) as usize;
                let buf = edgy_bytes(&mut r, len);
                let w = *r.pick(&[1u64, 2, 4, 4, 8, 8]);
                let signed = w >= 4 && r.chance(1, 2);
                let off = edge_off(&mut r, len);
                sink.run(x, &json!({"op":"read_int","es":r.pick(&ES_VALUES),"w":w,"signed":signed,
                    "buf":bytes_val(&buf),"off":w8(off)}));
            }
        }
        "parse" => {
            for _ in 0..n {
                let ty = *r.pick(&TYPES);
                let class = *r.pick(&[32u64, 64]);
                let sz = size_of(ty, class);
                let pre = if r.chance(1, 3) { r.below(5) as usize } else { 0 };
                let total = match r.below(6) {
                    0 => r.below((pre + sz) as u64 + 1) as usize,
                    1 => pre + sz + r.below(4) as usize,
                    _ => pre + sz,
                };
                let mut buf = edgy_bytes(&mut r, total);
                // version-checked records: make the version valid most of the time
                if (ty == "verdef" || ty == "verneed") && buf.len() >= pre + 2 && r.chance(5, 6) {
                    let big = r.chance(1, 2);
                    let _ = big;
                }
                let es = *r.pick(&ES_VALUES);
                if (ty == "verdef" || ty == "verneed") && buf.len() >= pre + 2 && r.chance(5, 6) {
                    let little = es == "LE" || es == "AnyL" || es == "Native";
                    if little { buf[pre] = 1; buf[pre + 1] = 0; } else { buf[pre] = 0; buf[pre + 1] = 1; }
                }
                let off = if r.chance(1, 8) { edge_off(&mut r, total) } else { pre as u64 };
                sink.run(x, &json!({"op":"parse_at","ty":ty,"class":class,"es":es,"buf":bytes_val(&buf),"off":w8(off)}));
            }
            for v in 0..256u64 {
                sink.run(x, &json!({"op":"acc","what":"st_info","v":w1(v as u8)}));
                sink.run(x, &json!({"op":"acc","what":"st_other","v":w1(v as u8)}));
            }
            for _ in 0..256 {
                let v = if r.chance(1, 4) { r.below(3) } else { r.below(65536) };
                sink.run(x, &json!({"op":"acc","what":"st_shndx","v":w2(v as u16)}));
                let v = r.below(65536);
                sink.run(x, &json!({"op":"acc","what":"versym","v":w2(v as u16)}));
            }
        }
        "table" => {
            for _ in 0..n {
                let ty = *r.pick(&["shdr", "phdr", "sym", "rel", "rela", "dyn", "u32", "u64", "versym"]);
                let class = *r.pick(&[32u64, 64]);
                let sz = size_of(ty, class);
                let big = r.chance(1, 25) && sz <= 8;
                let k = if big { *r.pick(&[255usize, 256, 257, 1000, 65535, 65536, 65537]) } else if r.chance(1, 4) { r.below(12) as usize } else { r.below(4) as usize };
                let len = if r.chance(1, 3) { k * sz } else { k * sz + r.below(sz as u64) as usize };
                let buf = edgy_bytes(&mut r, len);
                let nent = len / sz;
                let steps = 1 + r.below(5);
                let mut script: Vec<Value> = Vec::new();
                for _ in 0..steps {
                    match r.below(9) {
                        7 | 8 => { let w = walk_script(&mut r, nent); script.push(json!(["walk", w, *r.pick(&["iter", "into_iter"])])); }
                        0 => script.push(json!(["len"])),
                        1 => script.push(json!(["empty"])),
                        2 if !big || k <= 1000 => script.push(json!(["iter"])),
                        3 if !big || k <= 1000 => script.push(json!(["into_iter"])),
                        2 | 3 => script.push(json!(["len"])),
                        _ => {
                            let i = match r.below(8) {
                                0 => u64::MAX - r.below(3),
                                5 => { let v = r.below(nent as u64 + 1); alias(&mut r, v) }
                                // the smallest indices whose byte offset index * entsize wraps around 2^64 (once, twice, ...) and
                                // lands back inside the table
                                6 => { let k = r.range(1, sz as u64 - 1).max(1) as u128; (((k << 64) / sz as u128) as u64).wrapping_add(1 + r.below(nent as u64 + 1)) }
                                1 => u64::MAX / sz as u64 + r.below(3),
                                2 => r.edge64(),
                                _ => r.below(nent as u64 + 3),
                            };
                            script.push(json!(["get", w8(i)]));
                        }
                    }
                }
                if (!big || k <= 1000) && (ty == "rel" || ty == "rela" || r.chance(1, 4)) {
                    let mut o = json!({"op":"iter","ty":ty,"class":class,"es":r.pick(&ES_VALUES),"buf":bytes_val(&buf)});
                    if r.chance(2, 3) { o["walk"] = walk_script(&mut r, nent); }
                    sink.run(x, &o);
                }
                sink.run(x, &json!({"op":"tbl","ty":ty,"class":class,"es":r.pick(&ES_VALUES),"buf":bytes_val(&buf),"script":script}));
            }
        }
        "strtab" => {
            let alpha: [u8; 8] = [0, 0, b'a', b'b', 0xc3, 0xa9, 0xff, b'.'];
            for it in 0..n {
                // 1 in 40: a constructed table holding one long NUL-free run whose length sits at a
                // power-of-two window (a lookup must not care how long the string is)
                let bigt = it < 9 || r.chance(1, 40);
                let mut marks: Vec<u64> = Vec::new();
                let buf: Vec<u8> = if bigt {
                    let pre = r.below(6) as usize;
                    const RUNS: [usize; 9] = [254, 255, 256, 257, 65534, 65535, 65536, 65537, 70000];
                    let run = if it < 9 { RUNS[it as usize] } else { *r.pick(&RUNS) };
                    let mut b: Vec<u8> = (0..pre).map(|_| *r.pick(&alpha)).collect();
                    let ascii = r.chance(3, 4);
                    b.extend((0..run).map(|_| if ascii { b'a' + (r.next() % 26) as u8 } else { 1 + (r.next() % 255) as u8 }));
                    if it < 9 || r.chance(4, 5) { b.push(0); for _ in 0..r.below(4) { b.push(*r.pick(&alpha)); } }
                    marks = vec![pre as u64, pre as u64 + 1, (pre + run - 1) as u64, (pre + run) as u64, pre as u64 + r.below(run as u64)];
                    b
                } else {
                    let len = (match r.below(4) { 0 => r.below(8), 1 => r.below(64), _ => r.below(300) }) as usize;
                    (0..len).map(|_| if r.chance(1, 8) { r.next() as u8 } else { *r.pick(&alpha) }).collect()
                };
                let len = buf.len();
                // 3 per shard (all 9 in long runs): a table of 2^20 / 2^24 / 2^28 (-1, +0, +1) bytes, all 'a' except for a few
                // short chunks, recorded by description.  One string runs across almost the whole table.
                if (it >= 9 && it < 12) || (n >= 2000 && it >= 9 && it < 18) {
                    const POW: [u32; 9] = [20, 24, 20, 24, 20, 24, 28, 28, 28];
                    let k = (it - 9) as usize;
                    let total = ((1usize << POW[k]) as i64 + [-1i64, 0, 1][(k / 2 + k) % 3]) as usize;
                    let pre = 3 + r.below(5) as usize;
                    // "ab\0" at the start, the long run, a NUL `tail` bytes before the end (or none at all)
                    let tail = *r.pick(&[0usize, 1, 2, 9]);
                    let mut chunks = vec![json!({"off":0,"bytes":[98,99,0]})];
                    if tail > 0 { chunks.push(json!({"off": total - tail, "bytes": [0]})); }
                    sink.run(x, &json!({"op":"buf","slot":"st","len":total,"fill":97,"chunks":chunks}));
                    for off in [0u64, 1, 3, pre as u64, (total - tail) as u64, (total - 1) as u64, total as u64, total as u64 + 1, (total / 2) as u64] {
                        let op = if r.chance(1, 2) { "str_get_raw" } else { "str_get" };
                        sink.run(x, &json!({"op":op,"bufslot":"st","off":w8(off)}));
                    }
                    continue;
                }
                sink.run(x, &json!({"op":"buf","slot":"st","bytes":bytes_val(&buf)}));
                for q in 0..4 {
                    let off = if bigt && q < 3 { *r.pick(&marks) } else if len > 256 && r.chance(1, 3) { *r.pick(&[255u64, 256, 257]) } else { edge_off(&mut r, len) };
                    let op = if r.chance(1, 2) { "str_get_raw" } else { "str_get" };
                    sink.run(x, &json!({"op":op,"bufslot":"st","off":w8(off)}));
                }
            }
        }
        "ident" => {
            for _ in 0..n {
                let mut id: Vec<u8> = vec![0x7f, b'E', b'L', b'F', *r.pick(&[1u8, 2]), *r.pick(&[1u8, 2]), 1, r.next() as u8, r.next() as u8, 0, 0, 0, 0, 0, 0, 0];
                match r.below(8) {
                    0 => { let i = r.below(4) as usize; id[i] = r.next() as u8; }
                    1 => { id[4] = r.next() as u8; }
                    2 => { id[5] = r.next() as u8; }
                    3 => { id[6] = r.next() as u8; }
                    4 => { let k = r.below(17) as usize; id.truncate(k); }
                    5 => { let k = r.below(4) as usize; id.extend(r.bytes(k)); }
                    _ => {}
                }
                sink.run(x, &json!({"op":"ident","es":r.pick(&ES_SPECS),"buf":bytes_val(&id)}));
                let class = *r.pick(&[32u64, 64]);
                let tl = if class == 32 { 36 } else { 48 };
                let tn = match r.below(5) { 0 => r.below(tl + 2), _ => tl } as usize;
                let tb = edgy_bytes(&mut r, tn);
                sink.run(x, &json!({"op":"tail","es":r.pick(&ES_VALUES),"class":class,"osabi":w1(r.next() as u8),
                    "abiversion":w1(r.next() as u8),"buf":bytes_val(&tb)}));
                // the same through both parsers: a header-only object (no tables) of exactly the header's size, a little
                // more, or the other class's size, with at most one ident defect
                if r.chance(1, 3) {
                    let c32 = r.chance(1, 2);
                    let little = r.chance(1, 2);
                    let hs = if c32 { 52 } else { 64 };
                    let mut f: Vec<u8> = vec![0x7f, b'E', b'L', b'F', if c32 { 1 } else { 2 }, if little { 1 } else { 2 }, 1, 0, 0, 0, 0, 0, 0, 0, 0, 0];
                    let mut t = Vec::new();
                    let a = if c32 { 4 } else { 8 };
                    put(&mut t, 3, 2, little); put(&mut t, 62, 2, little); put(&mut t, 1, 4, little);
                    put(&mut t, 0, a, little); put(&mut t, 0, a, little); put(&mut t, 0, a, little);
                    put(&mut t, 0, 4, little); put(&mut t, hs as u64, 2, little);
                    for _ in 0..5 { put(&mut t, 0, 2, little); }
                    f.extend(t);
                    let total = *r.pick(&[hs, hs, hs + 1, hs + 11, 52, 63, 64, 65]);
                    f.resize(total.max(16), 0);
                    match r.below(6) {
                        0 => { f[4] = *r.pick(&[0u8, 3, 0xff, 2, 1]); }
                        1 => { f[5] = *r.pick(&[0u8, 3, 0xff]); }
                        2 => { f[6] = *r.pick(&[0u8, 2, 0xff]); }
                        3 => { let i = r.below(4) as usize; f[i] ^= 1 << r.below(8); }
                        _ => {}
                    }
                    sink.run(x, &json!({"op":"session","family":"ident-file"}));
                    sink.run(x, &json!({"op":"buf","slot":"file","bytes":bytes_val(&f)}));
                    for es in ["Any", "LE", "BE"] {
                        sink.run(x, &json!({"op":"open","es":es,"fileslot":"file"}));
                        sink.run(x, &json!({"op":"sopen","es":es,"fileslot":"file","reader":{"chunk":"full","seed":1,"faults":[]}}));
                    }
                }
            }
        }
        other => crate::gen_more(other, &mut r, n, x, sink),
    }
}
