//! Counting global allocator + crash containment (oversized request, hang watchdog).
use std::alloc::{GlobalAlloc, Layout, System};
use std::cell::Cell;
use std::sync::atomic::{AtomicBool, AtomicI32, AtomicU64, AtomicUsize, Ordering};

pub struct Counting;

thread_local! {
    static ARMED: Cell<bool> = const { Cell::new(false) };
    static COUNT: Cell<u64> = const { Cell::new(0) };
    static MAXREQ: Cell<u64> = const { Cell::new(0) };
}

const REFUSE_ABOVE: usize = 1 << 30;

pub static DIED_FD: AtomicI32 = AtomicI32::new(-1);
static mut SESSION_BUF: [u8; 8 << 20] = [0; 8 << 20];
static SESSION_LEN: AtomicUsize = AtomicUsize::new(0);
pub static OP_SEQ: AtomicU64 = AtomicU64::new(0);
pub static IN_CALL: AtomicBool = AtomicBool::new(false);
/// Largest buffer (slice argument, slot or stream contents) the current session has handed to the crate.
pub static INPUT_LEN: AtomicU64 = AtomicU64::new(0);

/// One more public crate call starts inside an enclosing measured region (a harness-side loop over crate
/// calls, e.g. `sbulk`): the watchdog's per-call clock starts again.
pub fn heartbeat() {
    OP_SEQ.fetch_add(2, Ordering::SeqCst);
}
pub fn input_reset() {
    INPUT_LEN.store(0, Ordering::SeqCst);
}
pub fn input_seen(len: usize) {
    INPUT_LEN.fetch_max(len as u64, Ordering::SeqCst);
}

pub fn session_reset() {
    SESSION_LEN.store(0, Ordering::SeqCst);
}
pub fn session_push(line: &[u8]) {
    let cur = SESSION_LEN.load(Ordering::SeqCst);
    let n = line.len() + 1;
    unsafe {
        let buf = &mut *std::ptr::addr_of_mut!(SESSION_BUF);
        if cur + n <= buf.len() {
            buf[cur..cur + line.len()].copy_from_slice(line);
            buf[cur + line.len()] = b'\n';
            SESSION_LEN.store(cur + n, Ordering::SeqCst);
        }
    }
}

/// Write the in-flight session and the reason to the died file and leave the process.
pub fn die(why: &str) -> ! {
    die_with(why, "")
}

/// `extra`: further members of the died record (`,"key":value...`), diagnostic only.
pub fn die_with(why: &str, extra: &str) -> ! {
    let fd = DIED_FD.load(Ordering::SeqCst);
    if fd >= 0 {
        unsafe {
            let buf = &*std::ptr::addr_of!(SESSION_BUF);
            let n = SESSION_LEN.load(Ordering::SeqCst);
            libc::write(fd, buf.as_ptr() as *const libc::c_void, n);
            let mut msg = [0u8; 256];
            let pre = b"{\"op\":\"died\",\"why\":\"";
            let mut k = 0;
            for b in pre.iter().chain(why.as_bytes().iter()).chain(b"\"".iter()).chain(extra.as_bytes().iter()).chain(b"}\n".iter()) {
                if k < msg.len() {
                    msg[k] = *b;
                    k += 1;
                }
            }
            libc::write(fd, msg.as_ptr() as *const libc::c_void, k);
            libc::fsync(fd);
        }
    }
    unsafe { libc::_exit(0) }
}

unsafe impl GlobalAlloc for Counting {
    unsafe fn alloc(&self, l: Layout) -> *mut u8 {
        note(l.size());
        System.alloc(l)
    }
    unsafe fn alloc_zeroed(&self, l: Layout) -> *mut u8 {
        note(l.size());
        System.alloc_zeroed(l)
    }
    unsafe fn realloc(&self, p: *mut u8, l: Layout, n: usize) -> *mut u8 {
        note(n);
        System.realloc(p, l, n)
    }
    unsafe fn dealloc(&self, p: *mut u8, l: Layout) {
        System.dealloc(p, l)
    }
}

fn note(size: usize) {
    let armed = ARMED.try_with(|a| a.get()).unwrap_or(false);
    if armed {
        let _ = COUNT.try_with(|c| c.set(c.get() + 1));
        let _ = MAXREQ.try_with(|m| {
            if size as u64 > m.get() {
                m.set(size as u64)
            }
        });
        if size > REFUSE_ABOVE {
            ARMED.with(|a| a.set(false));
            die("alloc_over_1GiB");
        }
    }
}

/// Inside a measured region: run harness-side code (projection) without counting its allocations.
pub fn paused<R>(f: impl FnOnce() -> R) -> R {
    let was = ARMED.with(|a| a.replace(false));
    let r = f();
    ARMED.with(|a| a.set(was));
    r
}

/// Run f with the allocation counter armed; returns (result-or-panic, allocation count, largest request).
pub fn measured<R>(f: impl FnOnce() -> R) -> (Result<R, String>, u64, u64) {
    // nesting-aware: an inner measurement adds to the enclosing one
    let saved = (COUNT.with(|c| c.get()), MAXREQ.with(|c| c.get()), ARMED.with(|a| a.get()), IN_CALL.load(Ordering::SeqCst));
    COUNT.with(|c| c.set(0));
    MAXREQ.with(|c| c.set(0));
    OP_SEQ.fetch_add(1, Ordering::SeqCst);
    IN_CALL.store(true, Ordering::SeqCst);
    ARMED.with(|a| a.set(true));
    let r = std::panic::catch_unwind(std::panic::AssertUnwindSafe(f));
    ARMED.with(|a| a.set(saved.2));
    IN_CALL.store(saved.3, Ordering::SeqCst);
    OP_SEQ.fetch_add(1, Ordering::SeqCst);
    let n = COUNT.with(|c| c.get());
    let m = MAXREQ.with(|c| c.get());
    COUNT.with(|c| c.set(saved.0 + n));
    MAXREQ.with(|c| c.set(saved.1.max(m)));
    match r {
        Ok(v) => (Ok(v), n, m),
        Err(e) => {
            let msg = if let Some(s) = e.downcast_ref::<&str>() {
                s.to_string()
            } else if let Some(s) = e.downcast_ref::<String>() {
                s.clone()
            } else {
                "panic".to_string()
            };
            if msg.starts_with("harness:") {
                eprintln!("{msg}");
                std::process::exit(3);
            }
            (Err(msg), n, m)
        }
    }
}

/// CPU budget of one crate call: `limit_ms` for sessions whose inputs are at most 64 KiB (the size the
/// termination property C16 speaks about), and proportionally more for larger inputs (megabyte objects,
/// gigabyte read histories: their cost is memory traffic, whose speed is the machine's, not the crate's),
/// capped so that a call that never returns is always noticed.
pub const BUDGET_CAP_MS: u64 = 120_000;
pub fn call_budget_ms(limit_ms: u64, input_len: u64) -> u64 {
    limit_ms.saturating_mul(1 + input_len / 65536).min(limit_ms.max(BUDGET_CAP_MS))
}

/// Watchdog: if one crate call stays in flight for more than its budget of the main thread's CPU
/// time, record the session and leave.
pub fn start_watchdog(limit_ms: u64) {
    let mut cid: libc::clockid_t = 0;
    unsafe {
        libc::pthread_getcpuclockid(libc::pthread_self(), &mut cid);
    }
    std::thread::spawn(move || {
        let mut last_seq = u64::MAX;
        let mut start_cpu = 0u64;
        loop {
            std::thread::sleep(std::time::Duration::from_millis(50));
            let seq = OP_SEQ.load(Ordering::SeqCst);
            let mut ts = libc::timespec { tv_sec: 0, tv_nsec: 0 };
            unsafe {
                libc::clock_gettime(cid, &mut ts);
            }
            let now = ts.tv_sec as u64 * 1000 + ts.tv_nsec as u64 / 1_000_000;
            if seq != last_seq {
                last_seq = seq;
                start_cpu = now;
            } else if IN_CALL.load(Ordering::SeqCst) {
                let input = INPUT_LEN.load(Ordering::SeqCst);
                let budget = call_budget_ms(limit_ms, input);
                let used = now.saturating_sub(start_cpu);
                if used > budget {
                    die_with("timeout", &format!(",\"cpu_ms\":{used},\"budget_ms\":{budget},\"input_len\":{input}"));
                }
            }
        }
    });
}

extern "C" fn on_signal(sig: libc::c_int) {
    if sig == libc::SIGSEGV {
        die("signal_SIGSEGV")
    } else {
        die("signal_SIGABRT")
    }
}

pub fn install_signal_handlers() {
    unsafe {
        // alternate stack so that a stack overflow can still be reported
        let sz = 1 << 16;
        let stack = libc::mmap(
            std::ptr::null_mut(),
            sz,
            libc::PROT_READ | libc::PROT_WRITE,
            libc::MAP_PRIVATE | libc::MAP_ANONYMOUS,
            -1,
            0,
        );
        let ss = libc::stack_t { ss_sp: stack, ss_flags: 0, ss_size: sz };
        libc::sigaltstack(&ss, std::ptr::null_mut());
        let mut sa: libc::sigaction = std::mem::zeroed();
        sa.sa_sigaction = on_signal as usize;
        sa.sa_flags = libc::SA_ONSTACK;
        libc::sigaction(libc::SIGSEGV, &sa, std::ptr::null_mut());
        libc::sigaction(libc::SIGABRT, &sa, std::ptr::null_mut());
    }
}
