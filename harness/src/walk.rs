//! The provided methods of the Iterator interface, exercised on one iterator object: a prefix of
//! next()/nth(k) calls followed by one consuming call (spec/Iter.tla).  Nothing is judged here;
//! every observation is projected with the caller's projection and logged.
use crate::alloc::measured;
use crate::exec::panic_res;
use crate::proj::{rd_w, w8};
use serde_json::{json, Value};

pub const WALK_CAP: usize = 20000;

/// formatting target that stores nothing (Debug output is produced and dropped, without allocating)
pub struct Null;
impl std::fmt::Write for Null {
    fn write_str(&mut self, _s: &str) -> std::fmt::Result { Ok(()) }
}
/// `{:?}` of a value, output discarded
pub fn dbg_fmt<T: std::fmt::Debug>(x: &T) {
    use std::fmt::Write;
    let _ = write!(Null, "{:?}", x);
}

pub fn walk<I: Iterator + std::fmt::Debug>(it: I, script: &Value, p: &dyn Fn(I::Item) -> Value) -> Value {
    let script: Vec<Value> = script.as_array().cloned().unwrap_or_default();
    let mut obs: Vec<Value> = Vec::new();
    let (r, _, _) = measured(|| {
        let mut it = Some(it);
        // after the first None the calls are still made (they must not panic) but no longer observed:
        // what a non-fused iterator yields then is left open by the interface
        let mut done = false;
        let opt = |o: Option<I::Item>| match o {
            Some(x) => json!({"some":true,"f":p(x)}),
            None => json!({"some":false}),
        };
        for st in script.iter() {
            let what = st[0].as_str().unwrap_or("");
            let k = rd_w(&st[1]) as usize;
            match what {
                "next" | "nth" => {
                    let i = it.as_mut().expect("harness: walk continues after a consuming call");
                    let o = if what == "next" { i.next() } else { i.nth(k) };
                    let none = o.is_none();
                    if !done { obs.push(opt(o)); }
                    if none { done = true; }
                }
                "debug" => {
                    // Debug-formatting an iterator in whatever state the walk left it
                    let i = it.as_ref().expect("harness: walk continues after a consuming call");
                    dbg_fmt(i);
                    if !done { obs.push(json!({"dbg":true})); }
                }
                "size_hint" => {
                    let i = it.as_mut().expect("harness: walk continues after a consuming call");
                    let _ = i.size_hint();
                    if !done { obs.push(json!({"hint":true})); }
                }
                "collect" => {
                    let i = it.take().expect("harness: walk continues after a consuming call");
                    let v: Vec<I::Item> = i.take(WALK_CAP + 1).collect();
                    if !done { obs.push(json!({"items":v.into_iter().map(|x| p(x)).collect::<Vec<_>>()})); }
                    break;
                }
                "rest" | "skip" | "step_by" => {
                    let i = it.take().expect("harness: walk continues after a consuming call");
                    let mut v: Vec<Value> = Vec::new();
                    let mut push = |x: I::Item| { v.push(p(x)); v.len() > WALK_CAP };
                    match what {
                        "rest" => { for x in i { if push(x) { break; } } }
                        "skip" => { for x in i.skip(k) { if push(x) { break; } } }
                        _ => {
                            if k == 0 { panic!("harness: step_by(0)"); }
                            for x in i.step_by(k) { if push(x) { break; } }
                        }
                    }
                    if !done { obs.push(json!({"items":v})); }
                    break;
                }
                "fold" => {
                    let i = it.take().expect("harness: walk continues after a consuming call");
                    let v = i.fold(Vec::new(), |mut v: Vec<Value>, x| { if v.len() <= WALK_CAP { v.push(p(x)); } v });
                    if !done { obs.push(json!({"items":v})); }
                    break;
                }
                "count" => {
                    let i = it.take().expect("harness: walk continues after a consuming call");
                    let c = i.count();
                    if !done { obs.push(json!({"n":w8(c as u64)})); }
                    break;
                }
                "last" => {
                    let i = it.take().expect("harness: walk continues after a consuming call");
                    let l = i.last();
                    if !done { obs.push(opt(l)); }
                    break;
                }
                other => panic!("harness: bad walk step {other}"),
            }
        }
    });
    match r {
        Ok(()) => json!({"out":"ok","obs":obs}),
        Err(msg) => panic_res(&msg),
    }
}
