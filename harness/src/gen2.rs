//! Generators with structure: notes, hash tables, symbol versions.  Builders here are written from
//! the format descriptions, independently of the crate; they contain no expectation about results
//! except the ground-truth *model* they encode, which is logged for the specification to use.
use crate::exec::Exec;
use crate::gen::{edge_off, edgy_bytes, size_of, ES_VALUES};
use crate::proj::*;
use crate::rng::Rng;
use crate::Sink;
use serde_json::{json, Value};

pub fn put(v: &mut Vec<u8>, val: u64, w: usize, little: bool) {
    let b = val.to_le_bytes();
    if little {
        v.extend_from_slice(&b[..w]);
    } else {
        for i in (0..w).rev() {
            v.push(b[i]);
        }
    }
}
pub fn is_little(es: &str) -> bool {
    es == "LE" || es == "AnyL" || es == "Native"
}
fn pad_to(v: &mut Vec<u8>, a: usize, r: &mut Rng) {
    if a > 0 {
        while v.len() % a != 0 {
            v.push(if r.chance(1, 2) { 0 } else { r.next() as u8 });
        }
    }
}

pub fn gen_name(r: &mut Rng) -> Vec<u8> {
    const A: [u8; 10] = [b'a', b'b', b'B', b'!', b'Q', b'_', b'z', 0x80, 0xc3, 0xff];
    let n = match r.below(8) { 0 => 0, 1 => r.range(7, 20), _ => r.range(1, 6) } as usize;
    (0..n).map(|_| *r.pick(&A)).collect()
}

// ------------------------------------------------------------------------------------------ notes
pub fn notes(r: &mut Rng, n: u64, x: &mut Exec, sink: &mut Sink) {
    for it in 0..n {
        let class = *r.pick(&[32u64, 64]);
        let es = *r.pick(&ES_VALUES);
        let little = is_little(es);
        // three per shard: a note laid out with an alignment of 1, 2 (+0 / +4) or 4 MiB - the descriptor then sits
        // megabytes after the name, and the buffer really is that long
        if (5..8).contains(&it) {
            let align: u64 = [0x10_0000u64, 0x20_0004, 0x40_0000][(it - 5) as usize];
            let mut buf: Vec<u8> = Vec::new();
            put(&mut buf, 4, 4, little); put(&mut buf, 5, 4, little); put(&mut buf, r.below(8), 4, little);
            buf.extend(b"ABC\0");
            buf.resize(align as usize, 0);
            buf.extend(&[1u8, 2, 3, 4, 5]);
            if r.chance(1, 2) { buf.extend(&[0u8; 3]); }
            sink.run(x, &json!({"op":"notes","class":class,"es":es,"align":w8(align),"buf":bytes_val(&buf)}));
            continue;
        }
        let align: u64 = match r.below(12) {
            0 => 1, 1 => 2, 2 | 3 | 4 => 4, 5 | 6 => 8, 7 => 16, 8 => *r.pick(&[3u64, 5, 6, 7, 12, 32]),
            9 => 0, 10 => *r.pick(&[0x8000_0000u64, 0xffff_ffff, 1 << 63, u64::MAX]), _ => 4,
        };
        let lay = if align == 0 || align > 64 { 4 } else { align as usize };
        let cnt = r.below(6);
        let mut buf: Vec<u8> = Vec::new();
        for _ in 0..cnt {
            let (name, ntype, desc): (Vec<u8>, u64, Vec<u8>) = match r.below(6) {
                0 => (b"GNU\0".to_vec(), 1, { let k = if r.chance(5, 6) { 16 } else { r.below(20) as usize }; r.bytes(k) }),
                1 => (b"GNU\0".to_vec(), 3, { let k = r.below(24) as usize; r.bytes(k) }),
                2 => (b"GNU\0".to_vec(), r.below(6), { let k = r.below(9) as usize; r.bytes(k) }),
                _ => {
                    let mut nm = gen_name(r);
                    // sizes in the windows around 2^8 (and rarely 2^16): a size kept in too narrow an integer shows there
                    if r.chance(1, 25) { let k = *r.pick(&[250usize, 255, 256, 257, 300]); nm = (0..k).map(|i| b'a' + (i % 26) as u8).collect(); }
                    for _ in 0..r.below(3) { nm.push(0); }
                    (nm, if r.chance(1, 5) { r.edge64() & 0xffff_ffff } else { r.below(8) },
                     { let k = if r.chance(1, 30) { *r.pick(&[255usize, 256, 257, 65536 + 5]) } else { r.below(20) as usize }; r.bytes(k) })
                }
            };
            put(&mut buf, name.len() as u64, 4, little);
            put(&mut buf, desc.len() as u64, 4, little);
            put(&mut buf, ntype, 4, little);
            buf.extend(&name);
            pad_to(&mut buf, lay, r);
            buf.extend(&desc);
            pad_to(&mut buf, lay, r);
        }
        match r.below(6) {
            0 => { let k = r.below(14) as usize; buf.extend(r.bytes(k)); }
            1 => { let k = r.below(buf.len() as u64 + 1) as usize; buf.truncate(k); }
            2 if !buf.is_empty() => { let i = r.below(buf.len() as u64) as usize; buf[i] = *r.pick(&[0u8, 1, 0x7f, 0xff]); }
            _ => {}
        }
        let mut o = json!({"op":"notes","class":class,"es":es,"align":w8(align),"buf":bytes_val(&buf)});
        if r.chance(1, 2) { o["walk"] = crate::gen::walk_script(r, 3); }
        sink.run(x, &o);
    }
}

// ------------------------------------------------------------------------------------------ hash
pub fn ref_gnu_hash(name: &[u8]) -> u32 {
    let mut h: u32 = 5381;
    for c in name { h = (h << 5).wrapping_add(h).wrapping_add(*c as u32); }
    h
}
pub fn ref_sysv_hash(name: &[u8]) -> u32 {
    // gABI figure 5-13, with 32-bit unsigned long
    let mut h: u32 = 0;
    for c in name {
        h = (h << 4).wrapping_add(*c as u32);
        let g = h & 0xf000_0000;
        if g != 0 { h ^= g >> 24; }
        h &= !g;
    }
    h
}

/// A name of 8 lower-case letters whose GNU hash is exactly `target` (meet in the middle over 4 + 4 letters:
/// h(p ++ s) = h(p) * 33^4 + S(s) mod 2^32, and 33 is invertible).  Used to place symbols whose hash, hence
/// whose chain word, sits at a boundary value (0, 1, all-ones, ...) in well-formed tables.
pub fn gnu_preimage(r: &mut Rng, target: u32) -> Option<Vec<u8>> {
    gnu_preimage_from(r, 5381, target)
}

/// ... continuing from hash state `start` (the state after some prefix): 8 letters that bring the hash to `target`
pub fn gnu_preimage_from(r: &mut Rng, start: u32, target: u32) -> Option<Vec<u8>> {
    use std::collections::HashMap;
    let step4 = |h0: u32, w: &[u8; 4]| w.iter().fold(h0, |h, c| (h << 5).wrapping_add(h).wrapping_add(*c as u32));
    let fwd = {
        let mut m: HashMap<u32, [u8; 4]> = HashMap::with_capacity(460_000);
        for a in b'a'..=b'z' { for b in b'a'..=b'z' { for c in b'a'..=b'z' { for d in b'a'..=b'z' {
            m.insert(step4(start, &[a, b, c, d]), [a, b, c, d]);
        } } } }
        m
    };
    let m4: u32 = 33u32.wrapping_pow(4);
    let mut inv: u32 = 1;                               // Newton iteration for m4^-1 mod 2^32
    for _ in 0..6 { inv = inv.wrapping_mul(2u32.wrapping_sub(m4.wrapping_mul(inv))); }
    let start = r.below(456_976);
    for k in 0..456_976u64 {
        let mut v = (start + k) % 456_976;
        let mut sfx = [0u8; 4];
        for i in (0..4).rev() { sfx[i] = b'a' + (v % 26) as u8; v /= 26; }
        let ssum = sfx.iter().fold(0u32, |acc, c| acc.wrapping_mul(33).wrapping_add(*c as u32));
        let need = target.wrapping_sub(ssum).wrapping_mul(inv);
        if let Some(pfx) = fwd.get(&need) {
            let mut name = pfx.to_vec();
            name.extend_from_slice(&sfx);
            return Some(name);
        }
    }
    None
}

/// A NUL-free byte string after which the gABI hash state has its low 28 bits in 0xffffff1..=0xfffffff, so that
/// the next byte >= 0x10 carries out of 32 bits in (h << 4) + c.  Constructed, not searched: the state is (up to
/// the two top-nibble folds) the base-16 number whose "digits" are the bytes, so the bytes are read off the target
/// from the low end; eight printable bytes, or seven arbitrary ones without any fold.
pub fn sysv_carry_prefix(r: &mut Rng) -> Option<Vec<u8>> {
    let step = |h: u32, c: u8| -> u32 { let mut h = (h << 4).wrapping_add(c as u32); let g = h & 0xf000_0000; if g != 0 { h ^= g >> 24; } h & !g };
    // bytes c_1..c_k in lo..=hi with sum c_i * 16^(k-i) == v
    fn rep(v: u64, k: usize, lo: u8, hi: u8, r: &mut Rng, out: &mut Vec<u8>) -> bool {
        if k == 1 { if v >= lo as u64 && v <= hi as u64 { out.push(v as u8); return true; } return false; }
        let mut cands: Vec<u8> = (lo..=hi).filter(|c| (*c as u64) % 16 == v % 16 && (*c as u64) <= v).collect();
        for i in (1..cands.len()).rev() { let j = r.below(i as u64 + 1) as usize; cands.swap(i, j); }
        for c in cands { if rep((v - c as u64) / 16, k - 1, lo, hi, r, out) { out.push(c); return true; } }
        false
    }
    let t: u32 = 0x0fff_fff1 + r.below(15) as u32;
    let check = |v: &Vec<u8>| v.iter().fold(0u32, |h, c| step(h, *c)) == t;
    if r.chance(1, 3) {
        let mut v = Vec::new();
        if rep(t as u64, 7, 1, 0xff, r, &mut v) && check(&v) { return Some(v); }
    }
    for _ in 0..200 {
        let (g1, g0) = (r.below(16) as u32, r.range(2, 7) as u32);        // the nibbles folded at the last two steps
        let t8: u64 = ((g1 as u64) << 28) | (t ^ (g1 << 4)) as u64;
        let c7 = 0x20 + 0x10 * r.below(6) as u8 + (t8 % 16) as u8;
        if !(0x21..=0x7e).contains(&c7) || (c7 as u64) > t8 { continue; }
        let h7 = ((t8 - c7 as u64) / 16) as u32;
        let v7: u64 = ((g0 as u64) << 28) | (h7 ^ (g0 << 4)) as u64;
        let mut v = Vec::new();
        if rep(v7, 7, 0x21, 0x7e, r, &mut v) { v.push(c7); if check(&v) { return Some(v); } }
    }
    None
}

/// names whose hashes sit at the boundaries of the lookup's arithmetic
pub fn boundary_names(r: &mut Rng, which: &str, it: u64) -> Vec<Vec<u8>> {
    let mut out = Vec::new();
    if which == "gnu" {
        const T: [u32; 8] = [0, 1, 0xffff_ffff, 0xffff_fffe, 2, 0x8000_0000, 0x7fff_ffff, 3];
        let t = T[(it % 8) as usize];
        if let Some(n) = gnu_preimage(r, t) { out.push(n); }
        if let Some(n) = gnu_preimage(r, t ^ 1) { out.push(n); }          // same chain word up to the stop bit
        if let Some(n) = gnu_preimage(r, t) { out.push(n); }              // a second name with the very same hash
    } else if let Some(p) = sysv_carry_prefix(r) {
        let hl = p.iter().fold(0u32, |h, c| { let mut h = (h << 4).wrapping_add(*c as u32); let g = h & 0xf000_0000; if g != 0 { h ^= g >> 24; } h & !g });
        let min = (0x1_0000_0000u64 - ((hl as u64) << 4)) as u8;              // smallest byte that carries
        for c in [min, min.saturating_sub(1).max(1), 0x7a, 0xff] {
            let mut n = p.clone(); n.push(c);
            for _ in 0..r.below(4) { n.push(*r.pick(b"abz_")); }
            out.push(n);
        }
    }
    out
}

pub struct SymSet { pub names: Vec<Vec<u8>>, pub strtab: Vec<u8>, pub name_off: Vec<u32> }

pub fn build_symtab(names: &[Vec<u8>], class: u64, little: bool, r: &mut Rng) -> (Vec<u8>, Vec<u8>, Vec<u32>) {
    let mut strtab = vec![0u8];
    let mut offs = Vec::new();
    for (i, n) in names.iter().enumerate() {
        if i == 0 || n.is_empty() { offs.push(0u32); continue; }
        offs.push(strtab.len() as u32);
        strtab.extend(n);
        strtab.push(0);
    }
    let mut sym = Vec::new();
    for (i, _) in names.iter().enumerate() {
        let (value, size, info, other, shndx) = if i == 0 { (0, 0, 0, 0, 0) } else { (r.edge64(), r.below(100), r.next() & 0xff, r.below(4), r.below(20)) };
        if class == 32 {
            put(&mut sym, offs[i] as u64, 4, little); put(&mut sym, value, 4, little); put(&mut sym, size, 4, little);
            put(&mut sym, info, 1, little); put(&mut sym, other, 1, little); put(&mut sym, shndx, 2, little);
        } else {
            put(&mut sym, offs[i] as u64, 4, little); put(&mut sym, info, 1, little); put(&mut sym, other, 1, little);
            put(&mut sym, shndx, 2, little); put(&mut sym, value, 8, little); put(&mut sym, size, 8, little);
        }
    }
    (sym, strtab, offs)
}

/// names[0] is the null symbol. Returns (reordered names, table bytes, symoffset)
pub fn build_gnu(mut names: Vec<Vec<u8>>, symoffset: usize, nbucket: u32, nbloom: u32, shift: u32, class: u64, little: bool) -> (Vec<Vec<u8>>, Vec<u8>) {
    let c: u32 = if class == 32 { 32 } else { 64 };
    let mut hashed: Vec<Vec<u8>> = names.split_off(symoffset.min(names.len()));
    hashed.sort_by_key(|n| ref_gnu_hash(n) % nbucket);      // stable: grouped by bucket, ascending
    let mut bloom = vec![0u64; nbloom as usize];
    let mut buckets = vec![0u32; nbucket as usize];
    let mut chains = Vec::new();
    for (k, n) in hashed.iter().enumerate() {
        let h = ref_gnu_hash(n);
        let b = (h % nbucket) as usize;
        let w = ((h / c) % nbloom) as usize;
        bloom[w] |= 1u64 << (h % c);
        bloom[w] |= 1u64 << ((h >> shift) % c);
        if buckets[b] == 0 { buckets[b] = (symoffset + k) as u32; }
        let last = k + 1 == hashed.len() || (ref_gnu_hash(&hashed[k + 1]) % nbucket) as usize != b;
        chains.push((h & !1) | (last as u32));
    }
    let mut t = Vec::new();
    put(&mut t, nbucket as u64, 4, little); put(&mut t, symoffset as u64, 4, little);
    put(&mut t, nbloom as u64, 4, little); put(&mut t, shift as u64, 4, little);
    for w in &bloom { put(&mut t, *w, if class == 32 { 4 } else { 8 }, little); }
    for b in &buckets { put(&mut t, *b as u64, 4, little); }
    for ch in &chains { put(&mut t, *ch as u64, 4, little); }
    names.extend(hashed);
    (names, t)
}

pub fn build_sysv(names: &[Vec<u8>], nbucket: u32, little: bool, r: &mut Rng) -> Vec<u8> {
    let n = names.len();
    let mut buckets = vec![0u32; nbucket as usize];
    let mut chains = vec![0u32; n];
    let mut order: Vec<usize> = (1..n).collect();
    // random insertion order: chains are linked lists, any order is well formed
    for i in (1..order.len()).rev() { let j = r.below(i as u64 + 1) as usize; order.swap(i, j); }
    for i in order {
        let b = (ref_sysv_hash(&names[i]) % nbucket) as usize;
        chains[i] = buckets[b];
        buckets[b] = i as u32;
    }
    let mut t = Vec::new();
    put(&mut t, nbucket as u64, 4, little); put(&mut t, n as u64, 4, little);
    for b in &buckets { put(&mut t, *b as u64, 4, little); }
    for ch in &chains { put(&mut t, *ch as u64, 4, little); }
    t
}


pub fn hash(r: &mut Rng, n: u64, x: &mut Exec, sink: &mut Sink, which: &str) {
    // the exported hash functions on random names
    for _ in 0..(n / 2).max(20) {
        let nm = match r.below(4) { 0 => { let k = r.below(40) as usize; r.bytes(k) } _ => gen_name(r) };
        sink.run(x, &json!({"op": if which == "gnu" { "gnu_hash" } else { "sysv_hash" }, "name": bytes_val(&nm)}));
    }
    // ... and on names built to sit at the boundaries of the hash arithmetic
    for it in 0..8 {
        for nm in boundary_names(r, which, it) {
            sink.run(x, &json!({"op": if which == "gnu" { "gnu_hash" } else { "sysv_hash" }, "name": bytes_val(&nm)}));
        }
    }
    // SysV: link structures at scale - a cycle among the LAST symbols of a table of 257 / 4097 / 4100 / 65537 symbols
    // (a walk bounded by anything smaller than the chain count, or by a fixed-size visited set, does not end)
    if which == "sysv" {
        for nsym in [257usize, 4097, 4100, 65537] {
            let class = *r.pick(&[32u64, 64]);
            let es = *r.pick(&ES_VALUES);
            let little = is_little(es);
            let symsz = if class == 32 { 16 } else { 24 };
            let symtab = vec![0u8; nsym * symsz];                       // every symbol unnamed (st_name = 0)
            let strtab = b"\0a\0".to_vec();
            let nbucket = *r.pick(&[1u32, 2, 3]);
            let mut t = Vec::new();
            put(&mut t, nbucket as u64, 4, little); put(&mut t, nsym as u64, 4, little);
            for _ in 0..nbucket { put(&mut t, nsym as u64 - 1, 4, little); }
            for i in 0..nsym {
                let nx = if i == nsym - 1 { nsym - 2 } else if i == nsym - 2 { if r.chance(1, 2) { nsym - 1 } else { nsym - 2 } } else { 0 };
                put(&mut t, nx as u64, 4, little);
            }
            sink.run(x, &json!({"op":"buf","slot":"h","bytes":bytes_val(&t)}));
            sink.run(x, &json!({"op":"buf","slot":"sy","bytes":bytes_val(&symtab)}));
            sink.run(x, &json!({"op":"buf","slot":"st","bytes":bytes_val(&strtab)}));
            for q in [&b"a"[..], b"zz", b""] {
                sink.run(x, &json!({"op":"sysv_find","class":class,"es":es,"hashslot":"h","symslot":"sy","strslot":"st",
                    "name":bytes_val(q),"wf":false,"first":1,"big":true}));
            }
        }
    }
    for it in 0..n {
        let class = *r.pick(&[32u64, 64]);
        let es = *r.pick(&ES_VALUES);
        let little = is_little(es);
        // the first tables of every shard (and 1 in 8 later) carry names whose hashes sit at the boundaries of the
        // lookup's arithmetic; they come early in the symbol order so that other names follow them in their chains
        // (GNU, every fourth of them instead: two names A, S adjacent in the string table such that the NUL-containing
        //  query "A\0S" has the very hash of A - a comparison that looks at the table's bytes without minding the NUL
        //  inside the query takes it for A)
        let adjacent = which == "gnu" && (it % 4 == 1 && it < 12 || r.chance(1, 16));
        let special: Vec<Vec<u8>> = if adjacent {
            let a: Vec<u8> = (0..r.range(1, 6)).map(|_| b'a' + (r.next() % 26) as u8).collect();
            let mut a0 = a.clone(); a0.push(0);
            match gnu_preimage_from(r, ref_gnu_hash(&a0), ref_gnu_hash(&a)) { Some(sfx) => vec![a, sfx], None => vec![] }
        } else if it < 8 || r.chance(1, 8) { boundary_names(r, which, it) } else { vec![] };
        let nsyms = (match r.below(5) { 0 => r.range(1, 3), 1 => r.range(20, 60), _ => r.range(2, 12) } as usize).max(if special.is_empty() { 0 } else { special.len() + 4 });
        let mut names: Vec<Vec<u8>> = vec![vec![]];
        let special_absent: Option<Vec<u8>> = if !adjacent && special.len() > 1 && r.chance(1, 2) { Some(special[1].clone()) } else { None };
        for (i, sp) in special.iter().enumerate() {
            if i == 1 && special_absent.is_some() { continue; }
            names.push(sp.clone());
        }
        let nspecial = names.len() - 1;
        // a pair of names with the same full hash (djb2: "aB"/"b!", elf_hash: "aa"/"bQ"), optionally embedded
        // in a common prefix/suffix (the collision is preserved), or names whose hashes differ in bit 0 only
        let base: (&[u8], &[u8]) = match r.below(4) {
            0 => (b"a", b"b"),
            _ => if which == "gnu" { (b"aB", b"b!") } else { (b"aa", b"bQ") },
        };
        let pre = if r.chance(1, 2) { gen_name(r) } else { vec![] };
        let post: Vec<u8> = if r.chance(1, 3) { (0..r.below(3)).map(|_| *r.pick(b"xyz_")).collect() } else { vec![] };
        let mk = |m: &[u8]| { let mut v = pre.clone(); v.extend_from_slice(m); v.extend(&post); v };
        let pair = (mk(base.0), mk(base.1));
        let use_pair = r.chance(2, 3);
        let both_present = use_pair && r.chance(1, 2);
        while names.len() < nsyms {
            let nm = if use_pair && names.len() == 1 + nspecial { pair.0.clone() }
                     else if both_present && names.len() == 2 + nspecial { pair.1.clone() }
                     else if r.chance(1, 10) && names.len() > 1 { names[r.range(1, names.len() as u64 - 1) as usize].clone() } else { gen_name(r) };
            names.push(nm);
        }
        if both_present && names.len() > 2 + nspecial && r.chance(1, 2) { names.swap(1 + nspecial, 2 + nspecial); }
        let mut absent: Vec<Vec<u8>> = Vec::new();
        let (table, first);
        if which == "gnu" {
            let symoffset = if nspecial > 0 { 1 } else { r.range(1, (nsyms as u64).min(4)) as usize };
            let nbucket = if adjacent { 1 } else if nspecial > 0 { r.range(1, 3) as u32 } else { r.range(1, (nsyms as u64).max(2)) as u32 };
            let mx = if r.chance(1, 4) { 7 } else { 3 };
            let nbloom = 1u32 << r.below(mx);
            let shift = if r.chance(1, 3) { r.below(32) } else { *r.pick(&[0u64, 5, 6, 26, 31]) } as u32;
            let (nn, t) = build_gnu(names.clone(), symoffset, nbucket, nbloom, shift, class, little);
            names = nn; table = t; first = symoffset;
        } else {
            let nbucket = r.range(1, (nsyms as u64).max(2)) as u32;
            table = build_sysv(&names, nbucket, little, r);
            first = 1;
        }
        let (symtab, mut strtab, _) = build_symtab(&names, class, little, r);
        let mut strtab_cut = false;
        if r.chance(1, 8) && strtab.len() > 2 { let k = r.range(1, 2) as usize; strtab.truncate(strtab.len() - k); strtab_cut = true; }
        // unhashed (gnu) names before `first` are absent from the table's point of view unless repeated later
        if use_pair && !both_present { absent.push(pair.1.clone()); }
        if let Some(sa) = special_absent { absent.push(sa); }
        if adjacent && special.len() == 2 { let mut q = special[0].clone(); q.push(0); q.extend(&special[1]); absent.push(q); }
        for _ in 0..3 { absent.push(gen_name(r)); }
        absent.push(vec![]);
        let mut wf = !strtab_cut;
        let mut tb = table.clone();
        if r.chance(1, 3) {
            wf = false;
            let ws = if class == 32 { 4 } else { 8 };
            let rd32 = |b: &[u8], o: usize| -> u32 { let mut a = [0u8; 4]; a.copy_from_slice(&b[o..o + 4]); if little { u32::from_le_bytes(a) } else { u32::from_be_bytes(a) } };
            match r.below(9) {
                // header fields at their boundary values, with every bloom bit set so that lookups get past the filter:
                // nbucket / nbloom = 0, nshift >= the word size, symoffset past the table
                7 | 8 => {
                    if which == "gnu" {
                        let nbl = rd32(&tb, 8) as usize;
                        for i in 16..(16 + ws * nbl).min(tb.len()) { tb[i] = 0xff; }
                    }
                    let nf = if which == "gnu" { 4 } else { 2 };
                    let f = r.below(nf) as usize * 4;
                    let v: u64 = *r.pick(&[0u64, 0, 1, 31, 32, 33, 63, 64, 65, 255, 0x7fff_ffff, 0x8000_0000, 0xffff_ffff]);
                    let mut w = Vec::new(); put(&mut w, v, 4, little); tb[f..f + 4].copy_from_slice(&w);
                }
                0 => { let i = r.below(tb.len() as u64) as usize; tb[i] = r.next() as u8; }
                1 => { let f = r.below(if which == "gnu" { 4 } else { 2 }) as usize * 4; let v = r.edge64(); let mut w = Vec::new(); put(&mut w, v, 4, little); tb[f..f + 4].copy_from_slice(&w); }
                2 => { let k = r.below(tb.len() as u64 + 1) as usize; tb.truncate(k); }
                3 => { let k = r.range(1, 8) as usize; for _ in 0..k { let i = r.below(tb.len() as u64) as usize; tb[i] = *r.pick(&[0u8, 1, 2, 0xff]); } }
                // field-aware: every bloom bit set (so lookups reach the buckets) and bucket / chain cells set
                // to boundary values: below / at the first hashed symbol, at / past the symbol count, huge
                _ => {
                    let (cells_off, ncell) = if which == "gnu" {
                        let nb = rd32(&tb, 0) as usize; let nbl = rd32(&tb, 8) as usize;
                        for i in 16..(16 + ws * nbl).min(tb.len()) { tb[i] = 0xff; }
                        (16 + ws * nbl, (tb.len().saturating_sub(16 + ws * nbl)) / 4 + 0 * nb)
                    } else { (8, (tb.len() - 8) / 4) };
                    let nb = rd32(&tb, 0) as usize;
                    for _ in 0..r.range(1, 4) {
                        if ncell == 0 || nb == 0 { break; }
                        // the bucket a present name hashes to (so that the lookup walks into the edited cell), or any cell
                        let c = if r.chance(2, 3) && names.len() > 1 {
                            let nm = &names[r.range(1, names.len() as u64 - 1) as usize];
                            let h = if which == "gnu" { ref_gnu_hash(nm) } else { ref_sysv_hash(nm) };
                            cells_off + 4 * (h as usize % nb)
                        } else { cells_off + 4 * r.below(ncell as u64) as usize };
                        let v: u64 = match r.below(8) { 0 => 0, 1 => 1, 2 => first as u64, 3 => (first as u64).saturating_sub(1), 4 => nsyms as u64, 5 => nsyms as u64 - 1, 6 => 0xffff_ffff, _ => r.below(nsyms as u64 + 2) };
                        let mut w = Vec::new(); put(&mut w, v, 4, little);
                        if c + 4 <= tb.len() { tb[c..c + 4].copy_from_slice(&w); }
                    }
                }
            }
        }
        sink.run(x, &json!({"op":"buf","slot":"h","bytes":bytes_val(&tb)}));
        sink.run(x, &json!({"op":"buf","slot":"sy","bytes":bytes_val(&symtab)}));
        sink.run(x, &json!({"op":"buf","slot":"st","bytes":bytes_val(&strtab)}));
        sink.run(x, &json!({"op":"hash_wf","kind":which,"class":class,"es":es,"hashslot":"h","symslot":"sy","strslot":"st","wf":wf}));
        let mut qs: Vec<Vec<u8>> = Vec::new();
        for (i, nm) in names.iter().enumerate() { if i > 0 && (names.len() < 14 || r.chance(1, 4) || special.contains(nm)) { qs.push(nm.clone()); } }
        qs.extend(absent);
        for q in qs.iter() {
            sink.run(x, &json!({"op": if which == "gnu" { "gnu_find" } else { "sysv_find" }, "class":class,"es":es,
                "hashslot":"h","symslot":"sy","strslot":"st","name":bytes_val(q),"wf":wf,"first":first}));
        }
        // queries with an embedded NUL: "name\0suffix" is not the name of any symbol (a C string ends at its first NUL),
        // even when - GNU - the suffix is chosen so that the whole query has the very hash of "name"
        for _ in 0..2 {
            if names.len() < 2 { break; }
            let nm = names[r.range(1, names.len() as u64 - 1) as usize].clone();
            let mut q = nm.clone(); q.push(0);
            if which == "gnu" {
                if let Some(sfx) = gnu_preimage_from(r, ref_gnu_hash(&q), ref_gnu_hash(&nm)) { q.extend(sfx); } else { q.extend(b"x"); }
            } else { q.extend(gen_name(r)); }
            sink.run(x, &json!({"op": if which == "gnu" { "gnu_find" } else { "sysv_find" }, "class":class,"es":es,
                "hashslot":"h","symslot":"sy","strslot":"st","name":bytes_val(&q),"wf":wf,"first":first}));
        }
        // queries that ALIAS the string table: the name passed in is a sub-slice of the table's own buffer - a whole
        // name, a proper prefix of a name (same start, shorter) and a proper suffix (later start, same end)
        if !strtab_cut {
            let (_, _, offs) = build_symtab(&names, class, little, &mut Rng::new(1));
            for _ in 0..3 {
                if names.len() < 2 { break; }
                let i = r.range(1, names.len() as u64 - 1) as usize;
                let nm = &names[i];
                if nm.is_empty() || offs[i] == 0 { continue; }
                let (o, l) = match r.below(3) {
                    0 => (offs[i] as usize, nm.len()),
                    1 => (offs[i] as usize, r.below(nm.len() as u64) as usize),
                    _ => { let k = r.below(nm.len() as u64) as usize; (offs[i] as usize + k, nm.len() - k) }
                };
                if o + l > strtab.len() { continue; }
                let q = strtab[o..o + l].to_vec();
                sink.run(x, &json!({"op": if which == "gnu" { "gnu_find" } else { "sysv_find" }, "class":class,"es":es,
                    "hashslot":"h","symslot":"sy","strslot":"st","name":bytes_val(&q),"name_alias":[o, l],"wf":wf,"first":first}));
            }
        }
        // the GNU table's header is a public field: lookups after the caller wrote boundary values into it
        if which == "gnu" && !qs.is_empty() && r.chance(1, 2) {
            for _ in 0..3 {
                let f = *r.pick(&["nbucket", "table_start_idx", "nbloom", "nshift"]);
                let v = *r.pick(&[0u64, 0, 1, 2, 31, 32, 33, 63, 64, 65, 0x7fff_ffff, 0x8000_0000, 0xffff_ffff]);
                let q = r.pick(&qs).clone();
                sink.run(x, &json!({"op":"gnu_find","class":class,"es":es,"hashslot":"h","symslot":"sy","strslot":"st",
                    "name":bytes_val(&q),"wf":false,"first":first,"hdr_edit":[[f, w4(v as u32)]]}));
            }
        }
    }
}

// ------------------------------------------------------------------------------------------ symver
pub struct NeedAux { pub name: Vec<u8>, pub hash: u32, pub flags: u16, pub other: u16 }
pub struct Need { pub file: Vec<u8>, pub auxs: Vec<NeedAux> }
pub struct Def { pub ndx: u16, pub flags: u16, pub hash: u32, pub names: Vec<Vec<u8>> }

fn ascii_name(r: &mut Rng) -> Vec<u8> {
    let n = r.range(1, 8) as usize;
    (0..n).map(|_| *r.pick(b"abcLIBG_.0123")).collect()
}

pub struct StrPool { pub buf: Vec<u8> }
impl StrPool {
    fn add(&mut self, s: &[u8]) -> u32 { let o = self.buf.len() as u32; self.buf.extend(s); self.buf.push(0); o }
}

/// lay out verneed records; mode 0 contiguous (record, its auxs, ...), 1 all records then all auxs, 2 with gaps
pub fn enc_needs(needs: &[Need], sp: &mut StrPool, little: bool, mode: u64, r: &mut Rng) -> Vec<u8> {
    // decide positions first
    let mut pos = 0usize;
    let mut rec_pos = Vec::new();
    let mut aux_pos: Vec<Vec<usize>> = Vec::new();
    let gap = |r: &mut Rng| if mode == 2 { r.below(3) as usize * 4 } else { 0 };
    if mode == 1 {
        for _ in needs { rec_pos.push(pos); pos += 16; }
        for n in needs { let mut v = Vec::new(); for _ in &n.auxs { v.push(pos); pos += 16; } aux_pos.push(v); }
    } else {
        for n in needs {
            if !rec_pos.is_empty() { pos += gap(r); } rec_pos.push(pos); pos += 16;
            let mut v = Vec::new();
            for _ in &n.auxs { pos += gap(r); v.push(pos); pos += 16; }
            aux_pos.push(v);
        }
    }
    let mut out = vec![0xEEu8; pos];
    for (i, n) in needs.iter().enumerate() {
        let mut b = Vec::new();
        put(&mut b, 1, 2, little); put(&mut b, n.auxs.len() as u64, 2, little); put(&mut b, sp.add(&n.file) as u64, 4, little);
        let aux = if n.auxs.is_empty() { 0 } else { aux_pos[i][0] - rec_pos[i] };
        put(&mut b, aux as u64, 4, little);
        let next = if i + 1 < needs.len() { rec_pos[i + 1] - rec_pos[i] } else { 0 };
        put(&mut b, next as u64, 4, little);
        out[rec_pos[i]..rec_pos[i] + 16].copy_from_slice(&b);
        for (j, a) in n.auxs.iter().enumerate() {
            let mut b = Vec::new();
            put(&mut b, a.hash as u64, 4, little); put(&mut b, a.flags as u64, 2, little); put(&mut b, a.other as u64, 2, little);
            put(&mut b, sp.add(&a.name) as u64, 4, little);
            let next = if j + 1 < n.auxs.len() { aux_pos[i][j + 1] - aux_pos[i][j] } else { 0 };
            put(&mut b, next as u64, 4, little);
            out[aux_pos[i][j]..aux_pos[i][j] + 16].copy_from_slice(&b);
        }
    }
    out
}

pub fn enc_defs(defs: &[Def], sp: &mut StrPool, little: bool, mode: u64, r: &mut Rng) -> Vec<u8> {
    let mut pos = 0usize;
    let mut rec_pos = Vec::new();
    let mut aux_pos: Vec<Vec<usize>> = Vec::new();
    let gap = |r: &mut Rng| if mode == 2 { r.below(3) as usize * 4 } else { 0 };
    if mode == 1 {
        for _ in defs { rec_pos.push(pos); pos += 20; }
        for d in defs { let mut v = Vec::new(); for _ in &d.names { v.push(pos); pos += 8; } aux_pos.push(v); }
    } else {
        for d in defs {
            if !rec_pos.is_empty() { pos += gap(r); } rec_pos.push(pos); pos += 20;
            let mut v = Vec::new();
            for _ in &d.names { pos += gap(r); v.push(pos); pos += 8; }
            aux_pos.push(v);
        }
    }
    let mut out = vec![0xEEu8; pos];
    for (i, d) in defs.iter().enumerate() {
        let mut b = Vec::new();
        put(&mut b, 1, 2, little); put(&mut b, d.flags as u64, 2, little); put(&mut b, d.ndx as u64, 2, little);
        put(&mut b, d.names.len() as u64, 2, little); put(&mut b, d.hash as u64, 4, little);
        let aux = if d.names.is_empty() { 0 } else { aux_pos[i][0] - rec_pos[i] };
        put(&mut b, aux as u64, 4, little);
        let next = if i + 1 < defs.len() { rec_pos[i + 1] - rec_pos[i] } else { 0 };
        put(&mut b, next as u64, 4, little);
        out[rec_pos[i]..rec_pos[i] + 20].copy_from_slice(&b);
        for (j, nm) in d.names.iter().enumerate() {
            let mut b = Vec::new();
            put(&mut b, sp.add(nm) as u64, 4, little);
            let next = if j + 1 < d.names.len() { aux_pos[i][j + 1] - aux_pos[i][j] } else { 0 };
            put(&mut b, next as u64, 4, little);
            out[aux_pos[i][j]..aux_pos[i][j] + 8].copy_from_slice(&b);
        }
    }
    out
}

pub struct VerModel { pub needs: Vec<Need>, pub defs: Vec<Def>, pub versym: Vec<u16> }

pub fn gen_ver_model(r: &mut Rng, big: bool) -> VerModel {
    let (mn, md, ma) = if big { (12, 12, 6) } else { (3, 3, 3) };
    let nn = r.below(mn + 1);
    let nd = r.below(md + 1);
    // indices are usually small and consecutive; sometimes they start in a numerically interesting window
    let mut next_idx: u16 = if r.chance(1, 4) { *r.pick(&[0xfeu16, 0xff, 0x100, 0x7ef0, 0x7f00, 0x7f01, 0x7ff0]) } else { 2 };
    let mut defs = Vec::new();
    for _ in 0..nd {
        let ndx = if r.chance(1, 12) { 1 } else { let v = next_idx; next_idx = (next_idx + 1).min(0x7fff); v };
        let cnt = r.range(1, 3);
        defs.push(Def { ndx, flags: r.below(4) as u16, hash: r.next() as u32, names: (0..cnt).map(|_| ascii_name(r)).collect() });
    }
    let mut needs = Vec::new();
    for _ in 0..nn {
        let na = r.below(ma + 1);
        let mut auxs = Vec::new();
        for _ in 0..na {
            let other = if r.chance(1, 15) && next_idx > 2 { next_idx - 1 } else { let v = next_idx; next_idx = (next_idx + 1).min(0x7fff); v };
            auxs.push(NeedAux { name: ascii_name(r), hash: r.next() as u32, flags: r.below(3) as u16, other });
        }
        needs.push(Need { file: ascii_name(r), auxs });
    }
    let nv = r.below(if big { 40 } else { 8 }) as usize;
    let versym = (0..nv).map(|_| {
        let lo = if next_idx > 0x200 { next_idx - 0x20 } else { 0 };
        let base = match r.below(5) { 0 => 0, 1 => 1, 2 => (next_idx as u32 + r.below(3) as u32).min(0x7fff) as u16, _ => r.range(lo as u64, next_idx as u64) as u16 };
        if r.chance(1, 3) { base | 0x8000 } else { base }
    }).collect();
    VerModel { needs, defs, versym }
}

pub fn model_json(m: &VerModel) -> Value {
    json!({
        "versym": m.versym.iter().map(|v| w2(*v)).collect::<Vec<_>>(),
        "needs": m.needs.iter().map(|n| json!({"file": bytes_val(&n.file), "auxs": n.auxs.iter().map(|a|
            json!({"name": bytes_val(&a.name), "hash": w4(a.hash), "flags": w2(a.flags), "other": w2(a.other)})).collect::<Vec<_>>()})).collect::<Vec<_>>(),
        "defs": m.defs.iter().map(|d| json!({"ndx": w2(d.ndx), "flags": w2(d.flags), "hash": w4(d.hash),
            "names": d.names.iter().map(|n| bytes_val(n)).collect::<Vec<_>>()})).collect::<Vec<_>>(),
    })
}

pub struct VerBytes { pub versym: Vec<u8>, pub need: Vec<u8>, pub def: Vec<u8>, pub strs: Vec<u8> }
pub fn enc_ver(m: &VerModel, little: bool, mode: u64, r: &mut Rng) -> VerBytes {
    let mut sp = StrPool { buf: vec![0] };
    let need = enc_needs(&m.needs, &mut sp, little, mode, r);
    let def = enc_defs(&m.defs, &mut sp, little, mode, r);
    let mut versym = Vec::new();
    for v in &m.versym { put(&mut versym, *v as u64, 2, little); }
    VerBytes { versym, need, def, strs: sp.buf }
}

pub fn symver(r: &mut Rng, n: u64, x: &mut Exec, sink: &mut Sink) {
    for it in 0..n {
        let class = *r.pick(&[32u64, 64]);
        let es = *r.pick(&ES_VALUES);
        let little = is_little(es);
        let m = gen_ver_model(r, it % 5 == 4);
        let mode = r.below(3);
        let vb = enc_ver(&m, little, mode, r);
        let mut op = json!({"op":"symver","class":class,"es":es,"versym":bytes_val(&vb.versym),"model":model_json(&m)});
        // a section is present whenever it has records; sometimes present-but-empty, sometimes absent
        // the declared record count is usually exact; a larger count changes nothing (the chain ends at next = 0),
        // a smaller one hides the later records - the ground-truth model is cut accordingly
        let mut mj = model_json(&m);
        let ncnt = match r.below(6) { 0 => m.needs.len() as u64 + r.range(1, 3), 1 if m.needs.len() > 1 => r.range(1, m.needs.len() as u64 - 1), _ => m.needs.len() as u64 };
        let dcnt = match r.below(6) { 0 => m.defs.len() as u64 + r.range(1, 3), 1 if m.defs.len() > 1 => r.range(1, m.defs.len() as u64 - 1), _ => m.defs.len() as u64 };
        if (ncnt as usize) < m.needs.len() { let a = mj["needs"].as_array().unwrap()[..ncnt as usize].to_vec(); mj["needs"] = json!(a); }
        if (dcnt as usize) < m.defs.len() { let a = mj["defs"].as_array().unwrap()[..dcnt as usize].to_vec(); mj["defs"] = json!(a); }
        op["model"] = mj;
        if !m.needs.is_empty() || r.chance(1, 2) {
            op["need"] = json!({"buf":bytes_val(&vb.need),"count":w8(ncnt),"str":bytes_val(&vb.strs)});
        }
        if !m.defs.is_empty() || r.chance(1, 2) {
            op["def"] = json!({"buf":bytes_val(&vb.def),"count":w8(dcnt),"str":bytes_val(&vb.strs)});
        }
        let mut q = Vec::new();
        for i in 0..(m.versym.len() as u64 + 2) { q.push(json!(["req", w8(i)])); q.push(json!(["def", w8(i)])); }
        q.push(json!(["req", w8(u64::MAX)]));
        for _ in 0..2 {
            let v = r.below(m.versym.len() as u64 + 1);
            let a = crate::gen::alias(r, v);
            q.push(json!([*r.pick(&["req", "def"]), w8(a)]));
        }
        q.push(json!(["def", w8(r.edge64())]));
        op["q"] = json!(q);
        sink.run(x, &op);
        // raw iterators on the same bytes (and on adversarial counts / starts)
        let cnt = match r.below(4) { 0 => r.edge64(), 1 => 0, _ => m.needs.len() as u64 + r.below(2) };
        let start = if r.chance(1, 6) { edge_off(r, vb.need.len()) } else { 0 };
        let mut o = json!({"op":"verneed_iter","class":class,"es":es,"count":w8(cnt),"start":w8(start),"buf":bytes_val(&vb.need)});
        if r.chance(1, 2) { o["walk"] = crate::gen::walk_script(r, m.needs.len()); }
        sink.run(x, &o);
        let cnt = match r.below(4) { 0 => r.edge64(), 1 => 0, _ => m.defs.len() as u64 + r.below(2) };
        let mut o = json!({"op":"verdef_iter","class":class,"es":es,"count":w8(cnt),"start":w8(0),"buf":bytes_val(&vb.def)});
        if r.chance(1, 2) { o["walk"] = crate::gen::walk_script(r, m.defs.len()); }
        sink.run(x, &o);
    }
}

/// adversarial link structures for the four version iterators and raw struct soup (C16)
pub fn links(r: &mut Rng, n: u64, x: &mut Exec, sink: &mut Sink) {
    for _ in 0..n {
        let class = *r.pick(&[32u64, 64]);
        let es = *r.pick(&ES_VALUES);
        let little = is_little(es);
        let kind = *r.pick(&["verdef_iter", "verneed_iter", "verdaux_iter", "vernaux_iter"]);
        let ty = match kind { "verdef_iter" => "verdef", "verneed_iter" => "verneed", "verdaux_iter" => "verdaux", _ => "vernaux" };
        let sz = size_of(ty, 64);
        let nrec = r.range(1, 5) as usize;
        let total = nrec * sz + r.below(9) as usize;
        let mut buf = edgy_bytes(r, total);
        for k in 0..nrec {
            let o = k * sz;
            // valid version where there is one, small counts, and a chosen `next`
            if ty == "verdef" || ty == "verneed" {
                let mut w = Vec::new(); put(&mut w, if r.chance(9, 10) { 1 } else { 2 }, 2, little); buf[o..o + 2].copy_from_slice(&w);
            }
            let next: u64 = match r.below(8) { 0 => 0, 1 => 1, 2 => sz as u64 - 1, 3 => 0xffff_ffff, 4 => 0x8000_0000, 5 => (total as u64).saturating_sub(o as u64), _ => sz as u64 };
            let mut w = Vec::new(); put(&mut w, next, 4, little); buf[o + sz - 4..o + sz].copy_from_slice(&w);
            if ty == "verdef" || ty == "verneed" {
                let aux: u64 = match r.below(5) { 0 => 0, 1 => 0xffff_ffff, 2 => r.below(total as u64 + 4), _ => sz as u64 };
                let mut w = Vec::new(); put(&mut w, aux, 4, little); buf[o + sz - 8..o + sz - 4].copy_from_slice(&w);
                let cnt: u64 = *r.pick(&[0u64, 1, 2, 3, 0xffff]);
                let mut w = Vec::new(); put(&mut w, cnt, 2, little);
                let co = if ty == "verdef" { 6 } else { 2 };
                buf[o + co..o + co + 2].copy_from_slice(&w);
            }
        }
        let count = match r.below(5) { 0 => u64::MAX, 1 => 0xffff_ffff, 2 => 0xffff, 3 => r.below(4), _ => nrec as u64 + r.below(3) };
        let start = match r.below(6) { 0 => edge_off(r, total), 1 => r.below(total as u64 + 2), _ => 0 };
        sink.run(x, &json!({"op":kind,"class":class,"es":es,"count":w8(count),"start":w8(start),"buf":bytes_val(&buf)}));
    }
}
