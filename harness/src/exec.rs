//! The executor: one JSON operation -> calls into the crate -> projected result events.
//! It contains no oracle: results are projected, never judged, here.
use crate::alloc::measured;
use crate::proj::*;
use elf::endian::{AnyEndian, BigEndian, EndianParse, LittleEndian, NativeEndian};
use elf::file::Class;
use elf::parse::{ParseAt, ParsingIterator, ParsingTable};
use serde_json::{json, Value};
use std::collections::HashMap;

pub const ITER_CAP: usize = 4096;

#[macro_export]
macro_rules! with_es {
    ($es:expr, $e:ident => $body:expr) => {
        match $es {
            "LE" => {
                let $e = LittleEndian;
                $body
            }
            "BE" => {
                let $e = BigEndian;
                $body
            }
            "AnyL" => {
                let $e = AnyEndian::Little;
                $body
            }
            "AnyB" => {
                let $e = AnyEndian::Big;
                $body
            }
            "Native" => {
                #[allow(non_upper_case_globals)]
                let $e = NativeEndian;
                $body
            }
            other => panic!("harness: unknown endian value {other}"),
        }
    };
}

#[macro_export]
macro_rules! with_ty {
    ($ty:expr, $p:ident => $body:expr) => {
        match $ty {
            "shdr" => {
                type $p = elf::section::SectionHeader;
                $body
            }
            "phdr" => {
                type $p = elf::segment::ProgramHeader;
                $body
            }
            "sym" => {
                type $p = elf::symbol::Symbol;
                $body
            }
            "rel" => {
                type $p = elf::relocation::Rel;
                $body
            }
            "rela" => {
                type $p = elf::relocation::Rela;
                $body
            }
            "dyn" => {
                type $p = elf::dynamic::Dyn;
                $body
            }
            "chdr" => {
                type $p = elf::compression::CompressionHeader;
                $body
            }
            "abitag" => {
                type $p = elf::note::NoteGnuAbiTag;
                $body
            }
            "sysvhdr" => {
                type $p = elf::hash::SysVHashHeader;
                $body
            }
            "gnuhdr" => {
                type $p = elf::hash::GnuHashHeader;
                $body
            }
            "u32" => {
                type $p = u32;
                $body
            }
            "u64" => {
                type $p = u64;
                $body
            }
            "versym" => {
                type $p = elf::gnu_symver::VersionIndex;
                $body
            }
            "verdef" => {
                type $p = elf::gnu_symver::VerDef;
                $body
            }
            "verdaux" => {
                type $p = elf::gnu_symver::VerDefAux;
                $body
            }
            "verneed" => {
                type $p = elf::gnu_symver::VerNeed;
                $body
            }
            "vernaux" => {
                type $p = elf::gnu_symver::VerNeedAux;
                $body
            }
            other => panic!("harness: unknown type {other}"),
        }
    };
}

pub fn class_of(v: &Value) -> Class {
    if v.as_u64() == Some(32) {
        Class::ELF32
    } else {
        Class::ELF64
    }
}

pub struct Exec {
    pub slots: HashMap<String, &'static [u8]>,
    pub stream: Option<crate::stream::StreamSession>,
    pub bytes: Option<crate::elffile::BytesSession>,
}

pub fn leak(v: Vec<u8>) -> &'static [u8] {
    Box::leak(v.into_boxed_slice())
}

/// attach the measured outcome to the op, producing the event
pub fn event(op: &Value, res: Value, allocs: u64, maxalloc: u64) -> Value {
    let mut m = op.as_object().cloned().unwrap_or_default();
    m.remove("exp");
    m.insert("res".into(), res);
    m.insert("allocs".into(), json!(allocs.min(i32::MAX as u64)));
    m.insert("maxalloc".into(), json!(maxalloc.min(i32::MAX as u64)));
    Value::Object(m)
}

pub fn panic_res(msg: &str) -> Value {
    json!({"out":"panic","msg":msg})
}

impl Exec {
    pub fn new() -> Self {
        Exec { slots: HashMap::new(), stream: None, bytes: None }
    }

    /// buffer argument `key`: inline bytes / sparse object under `key`, or a slot name under `<key>slot`
    pub fn buf(&self, op: &Value, key: &str) -> &'static [u8] {
        let b = self.buf_inner(op, key);
        crate::alloc::input_seen(b.len());
        b
    }

    fn buf_inner(&self, op: &Value, key: &str) -> &'static [u8] {
        match &op[key] {
            Value::Array(_) => leak(rd_bytes(&op[key])),
            Value::Object(o) => leak(materialise(o)),
            _ => match &op[format!("{key}slot").as_str()] {
                Value::String(s) => self.slots.get(s.as_str()).copied().unwrap_or(&[]),
                _ => &[],
            },
        }
    }

    /// Execute one operation; returns the events it produced.
    pub fn run(&mut self, op: &Value) -> Vec<Value> {
        let name = op["op"].as_str().unwrap_or("");
        match name {
            "session" => {
                crate::alloc::input_reset();
                self.slots.clear();
                self.stream = None;
                self.bytes = None;
                vec![op.clone()]
            }
            "buf" => {
                let b = match &op["bytes"] {
                    Value::Array(_) => leak(rd_bytes(&op["bytes"])),
                    _ => leak(materialise(op.as_object().unwrap())),
                };
                crate::alloc::input_seen(b.len());
                self.slots.insert(op["slot"].as_str().unwrap_or("a").to_string(), b);
                vec![op.clone()]
            }
            "hash_wf" | "note" | "abi_const" | "abi_struct" | "to_str" | "to_string" => vec![op.clone()],
            "misc" => vec![crate::misc::misc(op)],
            "read_int" => vec![self.read_int(op)],
            "parse_at" => vec![self.parse_at(op)],
            "tbl" => self.tbl(op),
            "iter" => vec![self.iter_all(op)],
            "str_get_raw" | "str_get" => vec![self.strtab(op)],
            "ident" => vec![crate::elffile::ident(self, op)],
            "tail" => vec![crate::elffile::tail(self, op)],
            "acc" => vec![self.accessors(op)],
            n if n.starts_with("notes") => vec![crate::sections::notes(self, op)],
            "sysv_hash" | "gnu_hash" => vec![crate::sections::hash_fn(op)],
            "sysv_find" | "gnu_find" => vec![crate::sections::hash_find(self, op)],
            "verneed_iter" | "verdef_iter" | "verdaux_iter" | "vernaux_iter" => {
                vec![crate::sections::ver_iter(self, op)]
            }
            "symver" => crate::sections::symver(self, op),
            "open" | "q" | "ehdr_edit" => crate::elffile::file_op(self, op),
            "sopen" | "sq" | "sbulk" => crate::stream::stream_op(self, op),
            other => panic!("harness: unknown op {other}"),
        }
    }

    fn read_int(&mut self, op: &Value) -> Value {
        let buf = self.buf(op, "buf");
        let w = op["w"].as_u64().unwrap();
        let signed = op["signed"].as_bool().unwrap_or(false);
        let off0 = rd_w(&op["off"]) as usize;
        let es = op["es"].as_str().unwrap();
        let (r, a, m) = with_es!(es, e => measured(|| {
            let mut off = off0;
            let r: Result<u64, elf::ParseError> = match (w, signed) {
                (1, _) => e.parse_u8_at(&mut off, buf).map(|v| v as u64),
                (2, _) => e.parse_u16_at(&mut off, buf).map(|v| v as u64),
                (4, false) => e.parse_u32_at(&mut off, buf).map(|v| v as u64),
                (4, true) => e.parse_i32_at(&mut off, buf).map(|v| v as u32 as u64),
                (8, false) => e.parse_u64_at(&mut off, buf),
                (8, true) => e.parse_i64_at(&mut off, buf).map(|v| v as u64),
                _ => panic!("harness: bad width"),
            };
            (r, off, e.is_little(), e.is_big())
        }));
        let res = match r {
            Err(p) => panic_res(&p),
            Ok((Ok(v), off, l, b)) => {
                json!({"out":"ok","val":wn(v, w as usize),"off":w8(off as u64),"little":l,"big":b})
            }
            Ok((Err(e), off, l, b)) => {
                let mut x = err(&e);
                x["off"] = w8(off as u64);
                x["little"] = json!(l);
                x["big"] = json!(b);
                x
            }
        };
        event(op, res, a, m)
    }

    fn parse_at(&mut self, op: &Value) -> Value {
        let buf = self.buf(op, "buf");
        let ty = op["ty"].as_str().unwrap();
        let class = class_of(&op["class"]);
        let off0 = rd_w(&op["off"]) as usize;
        let es = op["es"].as_str().unwrap();
        let (res, a, m) = with_es!(es, e => with_ty!(ty, P => {
            let (r, a, m) = measured(|| {
                let mut off = off0;
                let r = <P as ParseAt>::parse_at(e, class, &mut off, buf);
                (r, off, <P as ParseAt>::size_for(class))
            });
            let res = match r {
                Err(p) => panic_res(&p),
                Ok((Ok(v), off, sz)) => json!({"out":"ok","f":v.proj(),"off":w8(off as u64),"size":sz}),
                Ok((Err(e), _off, sz)) => {
                    let mut x = err(&e);
                    x["size"] = json!(sz);
                    x
                }
            };
            (res, a, m)
        }));
        event(op, res, a, m)
    }

    /// One lazily parsed table object, a script of accesses on that one object.
    /// Emits tbl_new followed by one event per script step.
    fn tbl(&mut self, op: &Value) -> Vec<Value> {
        let buf = self.buf(op, "buf");
        let ty = op["ty"].as_str().unwrap();
        let class = class_of(&op["class"]);
        let es = op["es"].as_str().unwrap();
        let script: Vec<Value> = op["script"].as_array().cloned().unwrap_or_default();
        let mut evs = Vec::new();
        let mut head = op.as_object().cloned().unwrap();
        head.remove("script");
        head.remove("exp");
        head.insert("op".into(), json!("tbl_new"));
        evs.push(Value::Object(head));
        with_es!(es, e => with_ty!(ty, P => {
            let t: ParsingTable<'static, _, P> = ParsingTable::new(e, class, buf);
            for st in script.iter() {
                let what = st[0].as_str().unwrap_or("");
                let mut sop = json!({"op": format!("tbl_{what}"), "arg": st.get(1).cloned().unwrap_or(json!([]))});
                if what == "walk" { sop["src"] = st.get(2).cloned().unwrap_or(json!("iter")); }
                let ev = match what {
                    "len" => {
                        let (r, a, m) = measured(|| t.len());
                        event(&sop, match r { Ok(n) => json!({"out":"ok","n":w8(n as u64)}), Err(p) => panic_res(&p) }, a, m)
                    }
                    "empty" => {
                        let (r, a, m) = measured(|| t.is_empty());
                        event(&sop, match r { Ok(b) => json!({"out":"ok","b":b}), Err(p) => panic_res(&p) }, a, m)
                    }
                    "get" => {
                        let i = rd_w(&st[1]) as usize;
                        let (r, a, m) = measured(|| t.get(i));
                        event(&sop, match r {
                            Ok(Ok(v)) => json!({"out":"ok","f":v.proj()}),
                            Ok(Err(e)) => err(&e),
                            Err(p) => panic_res(&p) }, a, m)
                    }
                    "iter" | "into_iter" => {
                        let mut items: Vec<P> = Vec::with_capacity(ITER_CAP);
                        let (r, a, m) = measured(|| {
                            let mut n = 0usize;
                            if what == "iter" {
                                for x in t.iter() { if items.len() < ITER_CAP { items.push(x); } n += 1; if n > 4 * ITER_CAP { break; } }
                            } else {
                                let t2: ParsingTable<'static, _, P> = ParsingTable::new(e, class, buf);
                                for x in t2 { if items.len() < ITER_CAP { items.push(x); } n += 1; if n > 4 * ITER_CAP { break; } }
                            }
                            n
                        });
                        event(&sop, match r {
                            Ok(n) => json!({"out":"ok","n":n,"items":items.iter().map(|x| x.proj()).collect::<Vec<_>>()}),
                            Err(p) => panic_res(&p) }, a, m)
                    }
                    "walk" => {
                        // the provided Iterator methods on one iterator object of this table
                        let into = st.get(2).and_then(|v| v.as_str()) == Some("into_iter");
                        let res = if into {
                            let t2: ParsingTable<'static, _, P> = ParsingTable::new(e, class, buf);
                            crate::walk::walk(t2.into_iter(), &st[1], &|x: P| x.proj())
                        } else {
                            crate::walk::walk(t.iter(), &st[1], &|x: P| x.proj())
                        };
                        event(&sop, res, 0, 0)
                    }
                    other => panic!("harness: bad table step {other}"),
                };
                evs.push(ev);
            }
        }));
        evs
    }

    /// A plain entry iterator (ParsingIterator, e.g. RelIterator/RelaIterator) run to its end.
    fn iter_all(&mut self, op: &Value) -> Value {
        let buf = self.buf(op, "buf");
        let ty = op["ty"].as_str().unwrap();
        let class = class_of(&op["class"]);
        let es = op["es"].as_str().unwrap();
        with_es!(es, e => with_ty!(ty, P => {
            let mut items: Vec<P> = Vec::with_capacity(ITER_CAP);
            let (r, a, m) = measured(|| {
                let it: ParsingIterator<'static, _, P> = ParsingIterator::new(e, class, buf);
                let mut n = 0usize;
                for x in it { if items.len() < ITER_CAP { items.push(x); } n += 1; if n > 4 * ITER_CAP { break; } }
                n
            });
            let mut res = match r {
                Ok(n) => json!({"out":"ok","n":n,"items":items.iter().map(|x| x.proj()).collect::<Vec<_>>()}),
                Err(p) => panic_res(&p) };
            if op.get("walk").is_some() && res["out"] == "ok" {
                let it: ParsingIterator<'static, _, P> = ParsingIterator::new(e, class, buf);
                res["walk"] = crate::walk::walk(it, &op["walk"], &|x: P| x.proj());
            }
            event(op, res, a, m)
        }))
    }

    fn strtab(&mut self, op: &Value) -> Value {
        let buf = self.buf(op, "buf");
        let off = rd_w(&op["off"]) as usize;
        let raw = op["op"].as_str() == Some("str_get_raw");
        let (r, a, m) = measured(|| -> Result<&'static [u8], elf::ParseError> {
            let st = elf::string_table::StringTable::new(buf);
            if raw {
                st.get_raw(off)
            } else {
                st.get(off).map(|s: &'static str| s.as_bytes())
            }
        });
        let res = match r {
            Err(p) => panic_res(&p),
            Ok(Ok(s)) => json!({"out":"ok","s":rng(buf, s),"n":s.len()}),
            Ok(Err(e)) => err(&e),
        };
        event(op, res, a, m)
    }

    /// derived accessors: Symbol::{st_bind,st_symtype,st_vis,is_undefined}, VersionIndex::{..}
    fn accessors(&mut self, op: &Value) -> Value {
        let what = op["what"].as_str().unwrap();
        let v = rd_w(&op["v"]);
        let (r, a, m) = measured(|| match what {
            "st_info" => {
                let s = elf::symbol::Symbol { st_name: 0, st_shndx: 0, st_info: v as u8, st_other: 0, st_value: 0, st_size: 0 };
                (s.st_bind() as u64, s.st_symtype() as u64, 0u64, 0u64)
            }
            "st_other" => {
                let s = elf::symbol::Symbol { st_name: 0, st_shndx: 0, st_info: 0, st_other: v as u8, st_value: 0, st_size: 0 };
                (s.st_vis() as u64, 0, 0, 0)
            }
            "st_shndx" => {
                let s = elf::symbol::Symbol { st_name: 0, st_shndx: v as u16, st_info: 0, st_other: 0, st_value: 0, st_size: 0 };
                (s.is_undefined() as u64, 0, 0, 0)
            }
            "versym" => {
                let x = elf::gnu_symver::VersionIndex(v as u16);
                (x.index() as u64, x.is_hidden() as u64, x.is_local() as u64, x.is_global() as u64)
            }
            other => panic!("harness: bad accessor {other}"),
        });
        let res = match r {
            Err(p) => panic_res(&p),
            Ok((a0, a1, a2, a3)) => json!({"out":"ok","r":[a0, a1, a2, a3]}),
        };
        event(op, res, a, m)
    }
}

/// sparse buffer {"len":n,"fill":b,"chunks":[{"off":o,"bytes":[..]}..]} -> bytes
pub fn materialise(o: &serde_json::Map<String, Value>) -> Vec<u8> {
    let len = o.get("len").and_then(|v| v.as_u64()).unwrap_or(0) as usize;
    let fill = o.get("fill").and_then(|v| v.as_u64()).unwrap_or(0) as u8;
    let mut v = vec![fill; len];
    if let Some(ch) = o.get("chunks").and_then(|c| c.as_array()) {
        for c in ch {
            let off = c["off"].as_u64().unwrap_or(0) as usize;
            let b = rd_bytes(&c["bytes"]);
            for (i, x) in b.iter().enumerate() {
                if off + i < len {
                    v[off + i] = *x;
                }
            }
        }
    }
    v
}

/// Projection is JSON-allocating, so it must happen outside the measured region: keep the value.
pub struct Lazy<T>(T);
impl<T: Proj> Lazy<T> {
    pub fn get(&self) -> Value {
        self.0.proj()
    }
}
pub trait ProjLazy: Sized {
    fn proj_lazy(self) -> Lazy<Self>;
}
impl<T: Proj> ProjLazy for T {
    fn proj_lazy(self) -> Lazy<Self> {
        Lazy(self)
    }
}
