//! Projection of crate values to the JSON the specification talks about.
//! Words are little-endian byte arrays of the native width; slices are [start,len] relative to a
//! base buffer (empty slices are normalised to [0,0]); absent values are {"out":"none"}.
use elf::ParseError;
use serde_json::{json, Map, Value};

pub fn wn(v: u64, n: usize) -> Value {
    Value::Array((0..n).map(|i| json!((v >> (8 * i)) & 0xff)).collect())
}
pub fn w8(v: u64) -> Value {
    wn(v, 8)
}
pub fn w4(v: u32) -> Value {
    wn(v as u64, 4)
}
pub fn w2(v: u16) -> Value {
    wn(v as u64, 2)
}
pub fn w1(v: u8) -> Value {
    wn(v as u64, 1)
}
pub fn rd_w(v: &Value) -> u64 {
    let mut r = 0u64;
    if let Some(a) = v.as_array() {
        for (i, b) in a.iter().enumerate().take(8) {
            r |= (b.as_u64().unwrap_or(0) & 0xff) << (8 * i);
        }
    } else if let Some(n) = v.as_u64() {
        r = n;
    }
    r
}
pub fn rd_bytes(v: &Value) -> Vec<u8> {
    v.as_array().map(|a| a.iter().map(|b| b.as_u64().unwrap_or(0) as u8).collect()).unwrap_or_default()
}
pub fn bytes_val(b: &[u8]) -> Value {
    Value::Array(b.iter().map(|x| json!(*x)).collect())
}

/// [start,len] of `s` inside `base`; empty -> [0,0]; not inside the caller's buffer -> [-1,len] (type-stable)
pub fn rng(base: &[u8], s: &[u8]) -> Value {
    if s.is_empty() {
        return json!([0, 0]);
    }
    let b0 = base.as_ptr() as usize;
    let s0 = s.as_ptr() as usize;
    if s0 >= b0 && s0 + s.len() <= b0 + base.len() {
        json!([s0 - b0, s.len()])
    } else {
        json!([-1, s.len()])
    }
}

pub fn err(e: &ParseError) -> Value {
    let (kind, payload): (&str, Value) = match e {
        ParseError::BadMagic(m) => ("BadMagic", bytes_val(m)),
        ParseError::UnsupportedElfClass(c) => ("UnsupportedElfClass", json!([*c])),
        ParseError::UnsupportedElfEndianness(c) => ("UnsupportedElfEndianness", json!([*c])),
        ParseError::UnsupportedVersion((a, b)) => ("UnsupportedVersion", json!([w8(*a), w8(*b)])),
        ParseError::BadOffset(o) => ("BadOffset", w8(*o)),
        ParseError::StringTableMissingNul(o) => ("StringTableMissingNul", w8(*o)),
        ParseError::BadEntsize((a, b)) => ("BadEntsize", json!([w8(*a), w8(*b)])),
        ParseError::UnexpectedSectionType((a, b)) => ("UnexpectedSectionType", json!([w4(*a), w4(*b)])),
        ParseError::UnexpectedSegmentType((a, b)) => ("UnexpectedSegmentType", json!([w4(*a), w4(*b)])),
        ParseError::UnexpectedAlignment(a) => ("UnexpectedAlignment", w8(*a as u64)),
        ParseError::SliceReadError((a, b)) => ("SliceReadError", json!([w8(*a as u64), w8(*b as u64)])),
        ParseError::IntegerOverflow => ("IntegerOverflow", json!([])),
        ParseError::Utf8Error(_) => ("Utf8Error", json!([])),
        ParseError::TryFromSliceError(_) => ("TryFromSliceError", json!([])),
        ParseError::TryFromIntError(_) => ("TryFromIntError", json!([])),
        ParseError::IOError(e) => ("IOError", json!(format!("{:?}", e.kind()))),
        #[allow(unreachable_patterns)]
        _ => ("Other", json!([])),
    };
    json!({"out":"err","kind":kind,"payload":payload})
}

pub fn obj(pairs: Vec<(&str, Value)>) -> Value {
    let mut m = Map::new();
    for (k, v) in pairs {
        m.insert(k.to_string(), v);
    }
    Value::Object(m)
}

/// Public fields of every ParseAt type, as words of the native width.
pub trait Proj {
    fn proj(&self) -> Value;
}
use elf::compression::CompressionHeader;
use elf::dynamic::Dyn;
use elf::gnu_symver::{VerDef, VerDefAux, VerNeed, VerNeedAux, VersionIndex};
use elf::hash::{GnuHashHeader, SysVHashHeader};
use elf::note::NoteGnuAbiTag;
use elf::relocation::{Rel, Rela};
use elf::section::SectionHeader;
use elf::segment::ProgramHeader;
use elf::symbol::Symbol;

impl Proj for SectionHeader {
    fn proj(&self) -> Value {
        obj(vec![
            ("sh_name", w4(self.sh_name)),
            ("sh_type", w4(self.sh_type)),
            ("sh_flags", w8(self.sh_flags)),
            ("sh_addr", w8(self.sh_addr)),
            ("sh_offset", w8(self.sh_offset)),
            ("sh_size", w8(self.sh_size)),
            ("sh_link", w4(self.sh_link)),
            ("sh_info", w4(self.sh_info)),
            ("sh_addralign", w8(self.sh_addralign)),
            ("sh_entsize", w8(self.sh_entsize)),
        ])
    }
}
impl Proj for ProgramHeader {
    fn proj(&self) -> Value {
        obj(vec![
            ("p_type", w4(self.p_type)),
            ("p_offset", w8(self.p_offset)),
            ("p_vaddr", w8(self.p_vaddr)),
            ("p_paddr", w8(self.p_paddr)),
            ("p_filesz", w8(self.p_filesz)),
            ("p_memsz", w8(self.p_memsz)),
            ("p_flags", w4(self.p_flags)),
            ("p_align", w8(self.p_align)),
        ])
    }
}
impl Proj for Symbol {
    fn proj(&self) -> Value {
        obj(vec![
            ("st_name", w4(self.st_name)),
            ("st_shndx", w2(self.st_shndx)),
            ("st_info", w1(self.st_info)),
            ("st_other", w1(self.st_other)),
            ("st_value", w8(self.st_value)),
            ("st_size", w8(self.st_size)),
        ])
    }
}
impl Proj for Rel {
    fn proj(&self) -> Value {
        obj(vec![("r_offset", w8(self.r_offset)), ("r_sym", w4(self.r_sym)), ("r_type", w4(self.r_type))])
    }
}
impl Proj for Rela {
    fn proj(&self) -> Value {
        obj(vec![
            ("r_offset", w8(self.r_offset)),
            ("r_sym", w4(self.r_sym)),
            ("r_type", w4(self.r_type)),
            ("r_addend", w8(self.r_addend as u64)),
        ])
    }
}
impl Proj for Dyn {
    fn proj(&self) -> Value {
        // d_un is private: observed through d_val() and d_ptr(), which must agree
        let v = if self.d_val() == self.d_ptr() { w8(self.d_val()) } else { json!("d_val!=d_ptr") };
        obj(vec![("d_tag", w8(self.d_tag as u64)), ("d_un", v)])
    }
}
impl Proj for CompressionHeader {
    fn proj(&self) -> Value {
        obj(vec![
            ("ch_type", w4(self.ch_type)),
            ("ch_size", w8(self.ch_size)),
            ("ch_addralign", w8(self.ch_addralign)),
        ])
    }
}
impl Proj for NoteGnuAbiTag {
    fn proj(&self) -> Value {
        obj(vec![
            ("os", w4(self.os)),
            ("major", w4(self.major)),
            ("minor", w4(self.minor)),
            ("subminor", w4(self.subminor)),
        ])
    }
}
impl Proj for SysVHashHeader {
    fn proj(&self) -> Value {
        obj(vec![("nbucket", w4(self.nbucket)), ("nchain", w4(self.nchain))])
    }
}
impl Proj for GnuHashHeader {
    fn proj(&self) -> Value {
        obj(vec![
            ("nbucket", w4(self.nbucket)),
            ("table_start_idx", w4(self.table_start_idx)),
            ("nbloom", w4(self.nbloom)),
            ("nshift", w4(self.nshift)),
        ])
    }
}
impl Proj for u32 {
    fn proj(&self) -> Value {
        obj(vec![("v", w4(*self))])
    }
}
impl Proj for u64 {
    fn proj(&self) -> Value {
        obj(vec![("v", w8(*self))])
    }
}
impl Proj for VersionIndex {
    fn proj(&self) -> Value {
        obj(vec![("v", w2(self.0))])
    }
}
impl Proj for VerDef {
    fn proj(&self) -> Value {
        obj(vec![
            ("vd_flags", w2(self.vd_flags)),
            ("vd_ndx", w2(self.vd_ndx)),
            ("vd_cnt", w2(self.vd_cnt)),
            ("vd_hash", w4(self.vd_hash)),
        ])
    }
}
impl Proj for VerDefAux {
    fn proj(&self) -> Value {
        obj(vec![("vda_name", w4(self.vda_name))])
    }
}
impl Proj for VerNeed {
    fn proj(&self) -> Value {
        obj(vec![("vn_cnt", w2(self.vn_cnt)), ("vn_file", w4(self.vn_file))])
    }
}
impl Proj for VerNeedAux {
    fn proj(&self) -> Value {
        obj(vec![
            ("vna_hash", w4(self.vna_hash)),
            ("vna_flags", w2(self.vna_flags)),
            ("vna_other", w2(self.vna_other)),
            ("vna_name", w4(self.vna_name)),
        ])
    }
}
