//! ElfBytes sessions and the stand-alone header parsers.
use crate::alloc::measured;
use crate::exec::*;
use crate::proj::*;
use crate::{with_es};
use elf::endian::{AnyEndian, BigEndian, EndianParse, LittleEndian, NativeEndian};
use elf::file::{Class, FileHeader};
use serde_json::{json, Value};

#[macro_export]
macro_rules! with_espec {
    ($es:expr, $e:ident => $body:expr) => {
        match $es {
            "LE" => {
                type $e = LittleEndian;
                $body
            }
            "BE" => {
                type $e = BigEndian;
                $body
            }
            "Any" => {
                type $e = AnyEndian;
                $body
            }
            "Native" => {
                type $e = NativeEndian;
                $body
            }
            other => panic!("harness: unknown endian spec {other}"),
        }
    };
}

pub fn class_num(c: Class) -> u64 {
    match c {
        Class::ELF32 => 32,
        Class::ELF64 => 64,
    }
}

pub fn ehdr_proj<E: EndianParse>(h: &FileHeader<E>) -> Value {
    obj(vec![
        ("class", json!(class_num(h.class))),
        ("little", json!(h.endianness.is_little())),
        ("osabi", w1(h.osabi)),
        ("abiversion", w1(h.abiversion)),
        ("version", w4(h.version)),
        ("e_type", w2(h.e_type)),
        ("e_machine", w2(h.e_machine)),
        ("e_entry", w8(h.e_entry)),
        ("e_phoff", w8(h.e_phoff)),
        ("e_shoff", w8(h.e_shoff)),
        ("e_flags", w4(h.e_flags)),
        ("e_ehsize", w2(h.e_ehsize)),
        ("e_phentsize", w2(h.e_phentsize)),
        ("e_phnum", w2(h.e_phnum)),
        ("e_shentsize", w2(h.e_shentsize)),
        ("e_shnum", w2(h.e_shnum)),
        ("e_shstrndx", w2(h.e_shstrndx)),
    ])
}

pub fn ident(x: &mut Exec, op: &Value) -> Value {
    let buf = x.buf(op, "buf");
    let es = op["es"].as_str().unwrap();
    let (r, a, m) = with_espec!(es, E => measured(|| {
        elf::file::parse_ident::<E>(buf).map(|(e, c, o, v)| (e.is_little(), class_num(c), o, v))
    }));
    let res = match r {
        Err(p) => panic_res(&p),
        Ok(Ok((l, c, o, v))) => json!({"out":"ok","little":l,"class":c,"osabi":w1(o),"abiversion":w1(v)}),
        Ok(Err(e)) => err(&e),
    };
    event(op, res, a, m)
}

pub fn tail(x: &mut Exec, op: &Value) -> Value {
    let buf = x.buf(op, "buf");
    let es = op["es"].as_str().unwrap();
    let class = class_of(&op["class"]);
    let osabi = rd_w(&op["osabi"]) as u8;
    let abiv = rd_w(&op["abiversion"]) as u8;
    let (r, a, m) = with_es!(es, e => measured(|| {
        FileHeader::parse_tail((e, class, osabi, abiv), buf).map(|h| Keep(ehdr_keep(&h)))
    }));
    let res = match r {
        Err(p) => panic_res(&p),
        Ok(Ok(h)) => json!({"out":"ok","f":h.0.to_value()}),
        Ok(Err(e)) => err(&e),
    };
    event(op, res, a, m)
}

/// plain-old-data copy of a FileHeader so that projection can happen outside the measured region
#[derive(Clone, Copy)]
pub struct EhdrPod {
    pub class: Class,
    pub little: bool,
    pub h: [u64; 15],
}
pub struct Keep<T>(pub T);
pub fn ehdr_keep<E: EndianParse>(h: &FileHeader<E>) -> EhdrPod {
    EhdrPod {
        class: h.class,
        little: h.endianness.is_little(),
        h: [
            h.osabi as u64,
            h.abiversion as u64,
            h.version as u64,
            h.e_type as u64,
            h.e_machine as u64,
            h.e_entry,
            h.e_phoff,
            h.e_shoff,
            h.e_flags as u64,
            h.e_ehsize as u64,
            h.e_phentsize as u64,
            h.e_phnum as u64,
            h.e_shentsize as u64,
            h.e_shnum as u64,
            h.e_shstrndx as u64,
        ],
    }
}
impl EhdrPod {
    pub fn to_value(&self) -> Value {
        let h = &self.h;
        obj(vec![
            ("class", json!(class_num(self.class))),
            ("little", json!(self.little)),
            ("osabi", w1(h[0] as u8)),
            ("abiversion", w1(h[1] as u8)),
            ("version", w4(h[2] as u32)),
            ("e_type", w2(h[3] as u16)),
            ("e_machine", w2(h[4] as u16)),
            ("e_entry", w8(h[5])),
            ("e_phoff", w8(h[6])),
            ("e_shoff", w8(h[7])),
            ("e_flags", w4(h[8] as u32)),
            ("e_ehsize", w2(h[9] as u16)),
            ("e_phentsize", w2(h[10] as u16)),
            ("e_phnum", w2(h[11] as u16)),
            ("e_shentsize", w2(h[12] as u16)),
            ("e_shnum", w2(h[13] as u16)),
            ("e_shstrndx", w2(h[14] as u16)),
        ])
    }
}


use elf::abi;
use elf::note::Note;
use elf::parse::ParsingTable;
use elf::section::SectionHeader;
use elf::segment::ProgramHeader;
use elf::string_table::StringTable;
use elf::ElfBytes;

pub enum BytesSession {
    LE(ElfBytes<'static, LittleEndian>, &'static [u8]),
    BE(ElfBytes<'static, BigEndian>, &'static [u8]),
    Any(ElfBytes<'static, AnyEndian>, &'static [u8]),
}

pub fn ck(b: &[u8]) -> u64 {
    let mut acc: u64 = 7;
    for x in b.iter().take(512) {
        acc = (acc * 31 + *x as u64 + 1) % 65521;
    }
    acc
}

/// projection of a byte slice handed out by a parser; base = the caller's buffer (slice parser only)
pub fn data_proj(base: Option<&[u8]>, s: &[u8]) -> Value {
    let mut v = json!({"len": s.len(), "ck": ck(s)});
    if let Some(b) = base {
        v["rng"] = rng(b, s);
    }
    v
}

/// walk the NUL-terminated strings of a string table from offset 0 (at most 64)
pub fn strtab_proj(base: Option<&[u8]>, st: &StringTable<'_>) -> Value {
    let mut off = 0usize;
    let mut n = 0usize;
    let mut walked: Vec<u8> = Vec::new();
    // position of the table inside the caller's buffer, taken from the first NON-EMPTY string handed out
    // (empty slices carry no position); -1 = the string does not lie in the caller's buffer
    let mut start: Option<i64> = None;
    while n < 64 {
        match st.get_raw(off) {
            Ok(s) => {
                if start.is_none() && !s.is_empty() {
                    if let Some(b) = base {
                        let p = s.as_ptr() as usize;
                        let b0 = b.as_ptr() as usize;
                        start = Some(if p >= b0 + off && p + s.len() <= b0 + b.len() { (p - b0 - off) as i64 } else { -1 });
                    }
                }
                walked.extend_from_slice(s);
                walked.push(0);
                off += s.len() + 1;
                n += 1;
            }
            Err(_) => break,
        }
    }
    let mut v = json!({"some": true, "nstr": n, "walked": off, "ck": ck(&walked)});
    if base.is_some() {
        v["start"] = json!(start.unwrap_or(0));
    }
    v
}

pub fn pick_idx(n: usize) -> Vec<usize> {
    if n <= 24 {
        (0..n).collect()
    } else {
        vec![0, 1, 2, n / 2, n - 3, n - 2, n - 1]
    }
}

pub fn tbl_proj<E: EndianParse, P: elf::parse::ParseAt + Proj>(t: &ParsingTable<'_, E, P>) -> Value {
    let n = t.len();
    let idx = pick_idx(n);
    let ents: Vec<Value> = idx.iter().map(|i| match t.get(*i) { Ok(v) => v.proj(), Err(_) => json!({"bad":true}) }).collect();
    json!({"some": true, "n": w8(n as u64), "idx": idx.iter().map(|i| w8(*i as u64)).collect::<Vec<_>>(), "ents": ents})
}

pub fn vec_proj<P: Proj>(v: &[P]) -> Value {
    let n = v.len();
    let idx = pick_idx(n);
    json!({"some": true, "n": w8(n as u64), "idx": idx.iter().map(|i| w8(*i as u64)).collect::<Vec<_>>(),
           "ents": idx.iter().map(|i| v[*i].proj()).collect::<Vec<_>>()})
}

pub fn shdr_from(v: &Value) -> SectionHeader {
    SectionHeader {
        sh_name: rd_w(&v["sh_name"]) as u32,
        sh_type: rd_w(&v["sh_type"]) as u32,
        sh_flags: rd_w(&v["sh_flags"]),
        sh_addr: rd_w(&v["sh_addr"]),
        sh_offset: rd_w(&v["sh_offset"]),
        sh_size: rd_w(&v["sh_size"]),
        sh_link: rd_w(&v["sh_link"]) as u32,
        sh_info: rd_w(&v["sh_info"]) as u32,
        sh_addralign: rd_w(&v["sh_addralign"]),
        sh_entsize: rd_w(&v["sh_entsize"]),
    }
}
pub fn phdr_from(v: &Value) -> ProgramHeader {
    ProgramHeader {
        p_type: rd_w(&v["p_type"]) as u32,
        p_offset: rd_w(&v["p_offset"]),
        p_vaddr: rd_w(&v["p_vaddr"]),
        p_paddr: rd_w(&v["p_paddr"]),
        p_filesz: rd_w(&v["p_filesz"]),
        p_memsz: rd_w(&v["p_memsz"]),
        p_flags: rd_w(&v["p_flags"]) as u32,
        p_align: rd_w(&v["p_align"]),
    }
}

fn mres<T>(r: Result<Result<T, elf::ParseError>, String>, f: impl FnOnce(T) -> Value) -> Value {
    match r {
        Err(p) => panic_res(&p),
        Ok(Err(e)) => err(&e),
        Ok(Ok(v)) => f(v),
    }
}

pub fn req_proj_c(strb: Option<&[u8]>, r: &elf::gnu_symver::SymbolRequirement<'_>) -> Value {
    let mut v = json!({"out":"ok","file_b":bytes_val(r.file.as_bytes()),"name_b":bytes_val(r.name.as_bytes()),
           "hash":w4(r.hash),"flags":w2(r.flags),"hidden":r.hidden});
    if let Some(b) = strb {
        v["file"] = rng(b, r.file.as_bytes());
        v["name"] = rng(b, r.name.as_bytes());
    }
    v
}

/// the queries of a symbol-version table embedded in one result: qs = [["req"|"def", W8]...]
pub fn symver_embedded<E: EndianParse>(t: &elf::gnu_symver::SymbolVersionTable<'_, E>, qs: &[Value], base: Option<&[u8]>) -> (Vec<Value>, u64, u64) {
    let mut out = Vec::new();
    let (mut ta, mut tm) = (0u64, 0u64);
    for q in qs {
        let what = q[0].as_str().unwrap_or("req");
        let i = rd_w(&q[1]) as usize;
        if what == "req" {
            let (r, a, m) = measured(|| t.get_requirement(i));
            ta += a; tm = tm.max(m);
            let res = match r {
                Err(p) => panic_res(&p),
                Ok(Err(e)) => err(&e),
                Ok(Ok(None)) => json!({"out":"none"}),
                Ok(Ok(Some(rq))) => req_proj_c(base, &rq),
            };
            out.push(json!({"k":"req","i":q[1].clone(),"r":res}));
        } else {
            let mut names: Vec<Result<&str, elf::ParseError>> = Vec::with_capacity(256);
            let (r, a, m) = measured(|| {
                t.get_definition(i).map(|o| o.map(|d| {
                    let (h, f, hid) = (d.hash, d.flags, d.hidden);
                    for nm in d.names { if names.len() < 256 { names.push(nm); } else { break; } }
                    (h, f, hid)
                }))
            });
            ta += a; tm = tm.max(m);
            let res = match r {
                Err(p) => panic_res(&p),
                Ok(Err(e)) => err(&e),
                Ok(Ok(None)) => json!({"out":"none"}),
                Ok(Ok(Some((h, f, hid)))) => json!({"out":"ok","hash":w4(h),"flags":w2(f),"hidden":hid,
                    "names": names.iter().map(|x| match x {
                        Ok(s) => { let mut v = json!({"out":"ok","b":bytes_val(s.as_bytes())}); if let Some(b) = base { v["s"] = rng(b, s.as_bytes()); } v }
                        Err(_) => json!({"out":"err"}) }).collect::<Vec<_>>()}),
            };
            out.push(json!({"k":"def","i":q[1].clone(),"r":res}));
        }
    }
    (out, ta, tm)
}

fn bytes_q<E: EndianParse>(eb: &ElfBytes<'static, E>, base: &'static [u8], op: &Value) -> Value {
    let name = op["name"].as_str().unwrap_or("");
    let b = Some(base);
    match name {
        "shdrs_with_strtab" => {
            let (r, a, m) = measured(|| eb.section_headers_with_strtab());
            event(op, mres(r, |(sh, st)| json!({"out":"ok","sh_some":sh.is_some(),
                "strtab": match st { Some(s) => strtab_proj(b, &s), None => json!({"some":false}) }})), a, m)
        }
        "shdr_by_name" => {
            let nm = rd_bytes(&op["qname"]);
            let s = std::str::from_utf8(&nm).unwrap_or("");
            let (r, a, m) = measured(|| eb.section_header_by_name(s));
            event(op, mres(r, |o| match o { Some(h) => json!({"out":"ok","f":h.proj()}), None => json!({"out":"none"}) }), a, m)
        }
        "section_data" => {
            let sh = shdr_from(&op["shdr"]);
            let (r, a, m) = measured(|| eb.section_data(&sh));
            event(op, mres(r, |(d, c)| json!({"out":"ok","data":data_proj(b, d),
                "chdr": match c { Some(c) => json!({"some":true,"f":c.proj()}), None => json!({"some":false}) }})), a, m)
        }
        "section_data_as_strtab" => {
            let sh = shdr_from(&op["shdr"]);
            let (r, a, m) = measured(|| eb.section_data_as_strtab(&sh));
            event(op, mres(r, |s| json!({"out":"ok","str":strtab_proj(b, &s)})), a, m)
        }
        "section_data_as_rels" => {
            let sh = shdr_from(&op["shdr"]);
            let mut items = Vec::with_capacity(ITER_CAP);
            let (r, a, m) = measured(|| eb.section_data_as_rels(&sh).map(|it| { let mut n = 0usize; for x in it { if items.len() < ITER_CAP { items.push(x); } n += 1; if n > 4 * ITER_CAP { break; } } n }));
            event(op, mres(r, |n| json!({"out":"ok","n":n,"items":items.iter().map(|x| x.proj()).collect::<Vec<_>>()})), a, m)
        }
        "section_data_as_relas" => {
            let sh = shdr_from(&op["shdr"]);
            let mut items = Vec::with_capacity(ITER_CAP);
            let (r, a, m) = measured(|| eb.section_data_as_relas(&sh).map(|it| { let mut n = 0usize; for x in it { if items.len() < ITER_CAP { items.push(x); } n += 1; if n > 4 * ITER_CAP { break; } } n }));
            event(op, mres(r, |n| json!({"out":"ok","n":n,"items":items.iter().map(|x| x.proj()).collect::<Vec<_>>()})), a, m)
        }
        "section_data_as_notes" | "segment_data_as_notes" => {
            let mut items: Vec<Note<'static>> = Vec::with_capacity(ITER_CAP);
            let (r, a, m) = measured(|| {
                let it = if name == "section_data_as_notes" { eb.section_data_as_notes(&shdr_from(&op["shdr"])) } else { eb.segment_data_as_notes(&phdr_from(&op["phdr"])) };
                it.map(|it| { let mut n = 0usize; for x in it { if items.len() < ITER_CAP { items.push(x); } n += 1; if n > 4 * ITER_CAP { break; } } n })
            });
            event(op, mres(r, |n| json!({"out":"ok","n":n,"items":items.iter().map(|x| crate::sections::note_proj(base, x)).collect::<Vec<_>>()})), a, m)
        }
        "segment_data" => {
            let ph = phdr_from(&op["phdr"]);
            let (r, a, m) = measured(|| eb.segment_data(&ph));
            event(op, mres(r, |d| json!({"out":"ok","data":data_proj(b, d)})), a, m)
        }
        "symbol_table" | "dynamic_symbol_table" => {
            let (r, a, m) = measured(|| if name == "symbol_table" { eb.symbol_table() } else { eb.dynamic_symbol_table() });
            event(op, mres(r, |o| match o { None => json!({"out":"none"}),
                Some((sy, st)) => json!({"out":"ok","sym":tbl_proj(&sy),"str":strtab_proj(b, &st)}) }), a, m)
        }
        "dynamic" => {
            let (r, a, m) = measured(|| eb.dynamic());
            event(op, mres(r, |o| match o { None => json!({"out":"none"}), Some(t) => json!({"out":"ok","tbl":tbl_proj(&t)}) }), a, m)
        }
        "symbol_version_table" => {
            let qs: Vec<Value> = op["qs"].as_array().cloned().unwrap_or_default();
            let (r, a, m) = measured(|| eb.symbol_version_table());
            match r {
                Ok(Ok(Some(t))) => {
                    let (q, a2, m2) = symver_embedded(&t, &qs, b);
                    event(op, json!({"out":"ok","qs":q}), a + a2, m.max(m2))
                }
                Ok(Ok(None)) => event(op, json!({"out":"none"}), a, m),
                Ok(Err(e)) => event(op, err(&e), a, m),
                Err(p) => event(op, panic_res(&p), a, m),
            }
        }
        "find_common_data" => {
            let names: Vec<Vec<u8>> = op["names"].as_array().map(|a| a.iter().map(rd_bytes).collect()).unwrap_or_default();
            let (r, a, m) = measured(|| eb.find_common_data());
            match r {
                Err(p) => event(op, panic_res(&p), a, m),
                Ok(Err(e)) => event(op, err(&e), a, m),
                Ok(Ok(c)) => {
                    let opt_t = |o: &Option<elf::symbol::SymbolTable<'static, E>>| match o { Some(t) => { let mut v = tbl_proj(t); v["some"] = json!(true); v } None => json!({"some":false}) };
                    let opt_s = |o: &Option<StringTable<'static>>| match o { Some(t) => { let mut v = strtab_proj(b, t); v["some"] = json!(true); v } None => json!({"some":false}) };
                    let mut res = json!({"out":"ok","symtab":opt_t(&c.symtab),"symtab_strs":opt_s(&c.symtab_strs),
                        "dynsyms":opt_t(&c.dynsyms),"dynsyms_strs":opt_s(&c.dynsyms_strs),
                        "dynamic": match &c.dynamic { Some(t) => { let mut v = tbl_proj(t); v["some"] = json!(true); v } None => json!({"some":false}) }});
                    let (mut ta, mut tm) = (a, m);
                    let find_res = |r: Result<Result<Option<(usize, elf::symbol::Symbol)>, elf::ParseError>, String>| match r {
                        Err(p) => panic_res(&p), Ok(Err(e)) => err(&e), Ok(Ok(None)) => json!({"out":"none"}),
                        Ok(Ok(Some((i, s)))) => json!({"out":"ok","idx":w8(i as u64),"sym":s.proj()}) };
                    let mut sysv = json!({"some": c.sysv_hash.is_some()});
                    let mut gnu = json!({"some": c.gnu_hash.is_some()});
                    if let Some(g) = &c.gnu_hash { gnu["hdr"] = g.hdr.proj(); }
                    if let (Some(sy), Some(st)) = (&c.dynsyms, &c.dynsyms_strs) {
                        if let Some(h) = &c.sysv_hash {
                            let mut v = Vec::new();
                            for nm in &names { let (r, a, m) = measured(|| h.find(nm, sy, st)); ta += a; tm = tm.max(m); v.push(find_res(r)); }
                            sysv["finds"] = json!(v);
                        }
                        if let Some(h) = &c.gnu_hash {
                            let mut v = Vec::new();
                            for nm in &names { let (r, a, m) = measured(|| h.find(nm, sy, st)); ta += a; tm = tm.max(m); v.push(find_res(r)); }
                            gnu["finds"] = json!(v);
                        }
                    }
                    res["sysv"] = sysv;
                    res["gnu"] = gnu;
                    event(op, res, ta, tm)
                }
            }
        }
        other => panic!("harness: unknown query {other}"),
    }
}

fn open_res<E: EndianParse>(eb: &ElfBytes<'static, E>) -> Value {
    let sh = match eb.section_headers() { Some(t) => { let mut v = tbl_proj(&t); v["some"] = json!(true); v } None => json!({"some":false}) };
    let ph = match eb.segments() { Some(t) => { let mut v = tbl_proj(&t); v["some"] = json!(true); v } None => json!({"some":false}) };
    json!({"out":"ok","ehdr":ehdr_proj(&eb.ehdr),"sh":sh,"ph":ph})
}

pub fn file_op(x: &mut Exec, op: &Value) -> Vec<Value> {
    if op["op"] == "open" {
        let base = x.buf(op, "file");
        let es = op["es"].as_str().unwrap_or("Any");
        x.bytes = None;
        let ev = match es {
            "LE" | "Native" => {
                let (r, a, m) = measured(|| ElfBytes::<LittleEndian>::minimal_parse(base));
                match r { Err(p) => event(op, panic_res(&p), a, m), Ok(Err(e)) => event(op, err(&e), a, m),
                    Ok(Ok(eb)) => { let v = open_res(&eb); x.bytes = Some(BytesSession::LE(eb, base)); event(op, v, a, m) } }
            }
            "BE" => {
                let (r, a, m) = measured(|| ElfBytes::<BigEndian>::minimal_parse(base));
                match r { Err(p) => event(op, panic_res(&p), a, m), Ok(Err(e)) => event(op, err(&e), a, m),
                    Ok(Ok(eb)) => { let v = open_res(&eb); x.bytes = Some(BytesSession::BE(eb, base)); event(op, v, a, m) } }
            }
            _ => {
                let (r, a, m) = measured(|| ElfBytes::<AnyEndian>::minimal_parse(base));
                match r { Err(p) => event(op, panic_res(&p), a, m), Ok(Err(e)) => event(op, err(&e), a, m),
                    Ok(Ok(eb)) => { let v = open_res(&eb); x.bytes = Some(BytesSession::Any(eb, base)); event(op, v, a, m) } }
            }
        };
        return vec![ev];
    }
    // `ehdr` is a public field of the handle: the caller writes to it between calls
    if op["op"] == "ehdr_edit" {
        fn edit<E: EndianParse>(h: &mut elf::file::FileHeader<E>, op: &Value) {
            if let Some(v) = op.get("class").and_then(|v| v.as_u64()) { h.class = if v == 32 { Class::ELF32 } else { Class::ELF64 }; }
            if let Some(v) = op.get("e_shstrndx") { h.e_shstrndx = rd_w(v) as u16; }
            if let Some(v) = op.get("e_shnum") { h.e_shnum = rd_w(v) as u16; }
            if let Some(v) = op.get("e_phnum") { h.e_phnum = rd_w(v) as u16; }
            if let Some(v) = op.get("e_shoff") { h.e_shoff = rd_w(v); }
            if let Some(v) = op.get("e_phoff") { h.e_phoff = rd_w(v); }
            if let Some(v) = op.get("e_shentsize") { h.e_shentsize = rd_w(v) as u16; }
            if let Some(v) = op.get("e_phentsize") { h.e_phentsize = rd_w(v) as u16; }
        }
        match &mut x.bytes {
            None => {}
            Some(BytesSession::LE(eb, _)) => edit(&mut eb.ehdr, op),
            Some(BytesSession::BE(eb, _)) => edit(&mut eb.ehdr, op),
            Some(BytesSession::Any(eb, _)) => {
                edit(&mut eb.ehdr, op);
                if op.get("flip_order").is_some() { eb.ehdr.endianness = match eb.ehdr.endianness { AnyEndian::Little => AnyEndian::Big, AnyEndian::Big => AnyEndian::Little }; }
            }
        }
        match &mut x.stream {
            None => {}
            Some(crate::stream::StreamSession::LE(es, _)) => edit(&mut es.ehdr, op),
            Some(crate::stream::StreamSession::BE(es, _)) => edit(&mut es.ehdr, op),
            Some(crate::stream::StreamSession::Any(es, _)) => {
                edit(&mut es.ehdr, op);
                if op.get("flip_order").is_some() { es.ehdr.endianness = match es.ehdr.endianness { AnyEndian::Little => AnyEndian::Big, AnyEndian::Big => AnyEndian::Little }; }
            }
        }
        return vec![event(op, json!({"out":"ok"}), 0, 0)];
    }
    match &x.bytes {
        None => vec![event(op, json!({"out":"closed"}), 0, 0)],
        Some(BytesSession::LE(eb, b)) => vec![bytes_q(eb, b, op)],
        Some(BytesSession::BE(eb, b)) => vec![bytes_q(eb, b, op)],
        Some(BytesSession::Any(eb, b)) => vec![bytes_q(eb, b, op)],
    }
}
#[allow(dead_code)]
fn _unused() { let _ = abi::SHT_NULL; }
