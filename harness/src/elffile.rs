//! ElfBytes sessions and the stand-alone header parsers.
use crate::alloc::measured;
use crate::exec::*;
use crate::proj::*;
use crate::{with_es};
use elf::endian::{AnyEndian, BigEndian, EndianParse, LittleEndian, NativeEndian};
use elf::file::{Class, FileHeader};
use serde_json::{json, Value};

#[macro_export]
macro_rules! with_espec {
    ($es:expr, $e:ident => $body:expr) => {
        match $es {
            "LE" => {
                type $e = LittleEndian;
                $body
            }
            "BE" => {
                type $e = BigEndian;
                $body
            }
            "Any" => {
                type $e = AnyEndian;
                $body
            }
            "Native" => {
                type $e = NativeEndian;
                $body
            }
            other => panic!("harness: unknown endian spec {other}"),
        }
    };
}

pub fn class_num(c: Class) -> u64 {
    match c {
        Class::ELF32 => 32,
        Class::ELF64 => 64,
    }
}

pub fn ehdr_proj<E: EndianParse>(h: &FileHeader<E>) -> Value {
    obj(vec![
        ("class", json!(class_num(h.class))),
        ("little", json!(h.endianness.is_little())),
        ("osabi", w1(h.osabi)),
        ("abiversion", w1(h.abiversion)),
        ("version", w4(h.version)),
        ("e_type", w2(h.e_type)),
        ("e_machine", w2(h.e_machine)),
        ("e_entry", w8(h.e_entry)),
        ("e_phoff", w8(h.e_phoff)),
        ("e_shoff", w8(h.e_shoff)),
        ("e_flags", w4(h.e_flags)),
        ("e_ehsize", w2(h.e_ehsize)),
        ("e_phentsize", w2(h.e_phentsize)),
        ("e_phnum", w2(h.e_phnum)),
        ("e_shentsize", w2(h.e_shentsize)),
        ("e_shnum", w2(h.e_shnum)),
        ("e_shstrndx", w2(h.e_shstrndx)),
    ])
}

pub fn ident(x: &mut Exec, op: &Value) -> Value {
    let buf = x.buf(op, "buf");
    let es = op["es"].as_str().unwrap();
    let (r, a, m) = with_espec!(es, E => measured(|| {
        elf::file::parse_ident::<E>(buf).map(|(e, c, o, v)| (e.is_little(), class_num(c), o, v))
    }));
    let res = match r {
        Err(p) => panic_res(&p),
        Ok(Ok((l, c, o, v))) => json!({"out":"ok","little":l,"class":c,"osabi":w1(o),"abiversion":w1(v)}),
        Ok(Err(e)) => err(&e),
    };
    event(op, res, a, m)
}

pub fn tail(x: &mut Exec, op: &Value) -> Value {
    let buf = x.buf(op, "buf");
    let es = op["es"].as_str().unwrap();
    let class = class_of(&op["class"]);
    let osabi = rd_w(&op["osabi"]) as u8;
    let abiv = rd_w(&op["abiversion"]) as u8;
    let (r, a, m) = with_es!(es, e => measured(|| {
        FileHeader::parse_tail((e, class, osabi, abiv), buf).map(|h| Keep(ehdr_keep(&h)))
    }));
    let res = match r {
        Err(p) => panic_res(&p),
        Ok(Ok(h)) => json!({"out":"ok","f":h.0.to_value()}),
        Ok(Err(e)) => err(&e),
    };
    event(op, res, a, m)
}

/// plain-old-data copy of a FileHeader so that projection can happen outside the measured region
#[derive(Clone, Copy)]
pub struct EhdrPod {
    pub class: Class,
    pub little: bool,
    pub h: [u64; 15],
}
pub struct Keep<T>(pub T);
pub fn ehdr_keep<E: EndianParse>(h: &FileHeader<E>) -> EhdrPod {
    EhdrPod {
        class: h.class,
        little: h.endianness.is_little(),
        h: [
            h.osabi as u64,
            h.abiversion as u64,
            h.version as u64,
            h.e_type as u64,
            h.e_machine as u64,
            h.e_entry,
            h.e_phoff,
            h.e_shoff,
            h.e_flags as u64,
            h.e_ehsize as u64,
            h.e_phentsize as u64,
            h.e_phnum as u64,
            h.e_shentsize as u64,
            h.e_shnum as u64,
            h.e_shstrndx as u64,
        ],
    }
}
impl EhdrPod {
    pub fn to_value(&self) -> Value {
        let h = &self.h;
        obj(vec![
            ("class", json!(class_num(self.class))),
            ("little", json!(self.little)),
            ("osabi", w1(h[0] as u8)),
            ("abiversion", w1(h[1] as u8)),
            ("version", w4(h[2] as u32)),
            ("e_type", w2(h[3] as u16)),
            ("e_machine", w2(h[4] as u16)),
            ("e_entry", w8(h[5])),
            ("e_phoff", w8(h[6])),
            ("e_shoff", w8(h[7])),
            ("e_flags", w4(h[8] as u32)),
            ("e_ehsize", w2(h[9] as u16)),
            ("e_phentsize", w2(h[10] as u16)),
            ("e_phnum", w2(h[11] as u16)),
            ("e_shentsize", w2(h[12] as u16)),
            ("e_shnum", w2(h[13] as u16)),
            ("e_shstrndx", w2(h[14] as u16)),
        ])
    }
}

pub struct BytesSession {}

pub fn file_op(_x: &mut Exec, _op: &Value) -> Vec<Value> {
    unimplemented!("file ops")
}
