//! small deterministic PRNG (splitmix64 / xorshift), no external crates
pub struct Rng(pub u64);
impl Rng {
    pub fn new(seed: u64) -> Self {
        Rng(seed.wrapping_mul(0x9E3779B97F4A7C15) ^ 0xD1B54A32D192ED03)
    }
    pub fn next(&mut self) -> u64 {
        self.0 = self.0.wrapping_add(0x9E3779B97F4A7C15);
        let mut z = self.0;
        z = (z ^ (z >> 30)).wrapping_mul(0xBF58476D1CE4E5B9);
        z = (z ^ (z >> 27)).wrapping_mul(0x94D049BB133111EB);
        z ^ (z >> 31)
    }
    pub fn below(&mut self, n: u64) -> u64 {
        if n == 0 { 0 } else { self.next() % n }
    }
    pub fn range(&mut self, lo: u64, hi: u64) -> u64 {
        lo + self.below(hi - lo + 1)
    }
    pub fn chance(&mut self, num: u64, den: u64) -> bool {
        self.below(den) < num
    }
    pub fn pick<'a, T>(&mut self, xs: &'a [T]) -> &'a T {
        &xs[self.below(xs.len() as u64) as usize]
    }
    pub fn bytes(&mut self, n: usize) -> Vec<u8> {
        (0..n).map(|_| self.next() as u8).collect()
    }
    /// a 64-bit value biased towards boundaries
    pub fn edge64(&mut self) -> u64 {
        const E: [u64; 14] = [0, 1, 2, 0x7f, 0x80, 0xff, 0x7fff_ffff, 0x8000_0000, 0xffff_ffff, 0x1_0000_0000,
            0x7fff_ffff_ffff_ffff, 0x8000_0000_0000_0000, 0xffff_ffff_ffff_fffe, 0xffff_ffff_ffff_ffff];
        match self.below(4) {
            0 => *self.pick(&E),
            1 => self.below(64),
            2 => self.next() >> self.below(64),
            _ => self.next(),
        }
    }
}
