//! elf-verif-harness: executes operations against the crate built from the repository under test.
//!   exec   <ops.ndjson> <events.ndjson>
//!   replay <cases.ndjson> <mismatches.ndjson>     cases carry "exp"; compares exp ⊑ res
//!   gen    <family> <seed> <n> <events.ndjson>
mod abi_ev;
mod abiref_vals;
mod alloc;
mod elffile;
mod exec;
mod gen;
mod gen2;
mod gen_elf;
mod misc;
mod proj;
mod rng;
mod sections;
mod stream;
mod walk;

use serde_json::{json, Value};
use std::io::{BufRead, BufWriter, Write};

#[global_allocator]
static A: alloc::Counting = alloc::Counting;

fn open_died(path: &str) {
    let p = std::ffi::CString::new(format!("{path}.died")).unwrap();
    let fd = unsafe { libc::open(p.as_ptr(), libc::O_CREAT | libc::O_WRONLY | libc::O_TRUNC, 0o644) };
    alloc::DIED_FD.store(fd, std::sync::atomic::Ordering::SeqCst);
}

/// exp ⊑ got: every key the specification predicts must be present and equal
fn subsumes(exp: &Value, got: &Value) -> bool {
    match (exp, got) {
        (Value::Object(e), Value::Object(g)) => e.iter().all(|(k, v)| g.get(k).map(|x| subsumes(v, x)).unwrap_or(false)),
        (Value::Array(e), Value::Array(g)) => e.len() == g.len() && e.iter().zip(g.iter()).all(|(a, b)| subsumes(a, b)),
        (a, b) => a == b,
    }
}

pub struct Sink {
    w: BufWriter<std::fs::File>,
    pub n: u64,
    pub record: Option<Vec<Value>>,
}
impl Sink {
    pub fn run(&mut self, x: &mut exec::Exec, op: &Value) -> Vec<Value> {
        let line = serde_json::to_string(op).unwrap();
        if let Some(rec) = self.record.as_mut() {
            rec.push(op.clone());
        }
        if op["op"] == "session" {
            alloc::session_reset();
        }
        alloc::session_push(line.as_bytes());
        let evs = match std::panic::catch_unwind(std::panic::AssertUnwindSafe(|| x.run(op))) {
            Ok(v) => v,
            Err(e) => { harness_bug(&e); vec![exec::event(op, exec::panic_res("panic outside the measured call (projection)"), 0, 0)] }
        };
        for e in &evs {
            serde_json::to_writer(&mut self.w, e).unwrap();
            self.w.write_all(b"\n").unwrap();
            self.n += 1;
        }
        evs
    }
}

fn main() {
    let args: Vec<String> = std::env::args().collect();
    if args.len() < 2 {
        eprintln!("usage: harness exec|replay|gen ...");
        std::process::exit(2);
    }
    std::panic::set_hook(Box::new(|info| {
        if !alloc::IN_CALL.load(std::sync::atomic::Ordering::SeqCst) {
            eprintln!("harness panic (outside a crate call): {info}");
        }
    }));
    alloc::install_signal_handlers();
    let limit: u64 = std::env::var("VERIF_CALL_CPU_MS").ok().and_then(|s| s.parse().ok()).unwrap_or(5000);
    alloc::start_watchdog(limit);
    let mut x = exec::Exec::new();
    match args[1].as_str() {
        "exec" => {
            open_died(&args[3]);
            let f = std::io::BufReader::new(std::fs::File::open(&args[2]).expect("ops file"));
            let mut sink = Sink { w: BufWriter::new(std::fs::File::create(&args[3]).unwrap()), n: 0, record: None };
            for line in f.lines() {
                let line = line.unwrap();
                if line.trim().is_empty() {
                    continue;
                }
                let op: Value = serde_json::from_str(&line).expect("op json");
                sink.run(&mut x, &op);
            }
            sink.w.flush().unwrap();
            println!("{}", json!({"events": sink.n}));
        }
        "replay" => {
            open_died(&args[3]);
            let f = std::io::BufReader::new(std::fs::File::open(&args[2]).expect("cases file"));
            let mut out = BufWriter::new(std::fs::File::create(&args[3]).unwrap());
            let (mut n, mut bad, mut panics, mut allocs) = (0u64, 0u64, 0u64, 0u64);
            let mut session: Vec<String> = Vec::new();
            for line in f.lines() {
                let line = line.unwrap();
                if line.trim().is_empty() {
                    continue;
                }
                let case: Value = serde_json::from_str(&line).expect("case json");
                if case["op"] == "session" {
                    alloc::session_reset();
                    session.clear();
                }
                alloc::session_push(line.as_bytes());
                session.push(line.clone());
                let evs = match std::panic::catch_unwind(std::panic::AssertUnwindSafe(|| x.run(&case))) {
                    Ok(v) => v,
                    Err(e) => { harness_bug(&e); vec![exec::event(&case, exec::panic_res("panic outside the measured call (projection)"), 0, 0)] }
                };
                if case.get("exp").is_none() {
                    continue;
                }
                n += 1;
                let exp = &case["exp"];
                // single-event ops: exp is the res; multi-event ops (tbl ...): exp is the list of res after the head
                // an empty expectation (the specification leaves this answer open) accepts anything
                let open_answer = exp.as_array().map(|a| a.is_empty()).unwrap_or(false) && evs.len() == 1;
                let ok = if open_answer {
                    true
                } else if evs.len() == 1 {
                    subsumes(exp, &evs[0]["res"])
                } else {
                    match exp.as_array() {
                        Some(es) => es.len() == evs.len() - 1 && es.iter().zip(evs[1..].iter()).all(|(e, g)| subsumes(e, &g["res"])),
                        None => false,
                    }
                };
                let pan = evs.iter().any(|e| e["res"]["out"] == "panic");
                if pan {
                    panics += 1;
                }
                // slice-parser calls must not allocate (stream ops are exempt: they own their buffers)
                let alc = evs.iter().any(|e| e["allocs"].as_u64().unwrap_or(0) > 0 && e["op"] != "sopen" && e["op"] != "sq");
                if alc {
                    allocs += 1;
                }
                if !ok {
                    bad += 1;
                }
                if !ok || pan || alc {
                    if bad + panics + allocs <= 60 {
                        let got: Vec<Value> = evs.iter().map(|e| e["res"].clone()).collect();
                        let why = if pan { "panic" } else if !ok { "value" } else { "alloc" };
                        serde_json::to_writer(&mut out, &json!({"why": why, "session": session, "case": case, "got": got})).unwrap();
                        out.write_all(b"\n").unwrap();
                    }
                }
            }
            out.flush().unwrap();
            println!("{}", json!({"cases": n, "mismatches": bad, "panics": panics, "allocs": allocs}));
        }
        "gen" => {
            let fam = &args[2];
            let seed: u64 = args[3].parse().unwrap();
            let n: u64 = args[4].parse().unwrap();
            open_died(&args[5]);
            let mut sink = Sink { w: BufWriter::new(std::fs::File::create(&args[5]).unwrap()), n: 0, record: None };
            gen::run(fam, seed, n, &mut x, &mut sink);
            sink.w.flush().unwrap();
            println!("{}", json!({"events": sink.n}));
        }
        _ => {
            eprintln!("unknown mode");
            std::process::exit(2);
        }
    }
}

pub fn gen_more(fam: &str, r: &mut rng::Rng, n: u64, x: &mut exec::Exec, sink: &mut Sink) {
    match fam {
        "notes" => gen2::notes(r, n, x, sink),
        "gnuhash" => gen2::hash(r, n, x, sink, "gnu"),
        "sysvhash" => gen2::hash(r, n, x, sink, "sysv"),
        "symver" => gen2::symver(r, n, x, sink),
        "links" => gen2::links(r, n, x, sink),
        "elf" => gen_elf::elf_family(r, n, x, sink, false),
        "elfcorrupt" => gen_elf::elf_family(r, n, x, sink, true),
        "garbage" => gen_elf::garbage_family(r, n, x, sink),
        "abi" => abi_ev::run(r, n, x, sink),
        "misc" => { for i in 0..n { let v = if i < 70000 { i } else { r.edge64() }; sink.run(x, &serde_json::json!({"op":"misc","v":v})); } }
        "prefix" => gen_elf::prefix_family(r, n, x, sink, false),
        "prefixall" => gen_elf::prefix_family(r, n, x, sink, true),
        "locate" => gen_elf::locate_family(r, n, x, sink),
        "entsize" => gen_elf::entsize_family(r, n, x, sink),
        "stream" => gen_elf::stream_family(r, n, x, sink, "plain"),
        "sfault" => gen_elf::stream_family(r, n, x, sink, "fault"),
        "sfaultall" => gen_elf::stream_family(r, n, x, sink, "faultall"),
        "sbig" => gen_elf::stream_family(r, n, x, sink, "big"),
        _ => panic!("harness: unknown generator family {fam}"),
    }
}

/// a panic raised by the harness itself (message starts with "harness:") is a tool error, never data
pub fn harness_bug(e: &Box<dyn std::any::Any + Send>) {
    let msg = if let Some(s) = e.downcast_ref::<&str>() { s.to_string() } else if let Some(s) = e.downcast_ref::<String>() { s.clone() } else { String::new() };
    if msg.starts_with("harness:") {
        eprintln!("{msg}");
        std::process::exit(3);
    }
}
