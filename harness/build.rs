// Generates abi_consts.rs: every `pub const NAME: <integer type>` of the crate's abi module with its
// *compiled* value (the list of names is scanned from the source; the values come from the compiler).
use std::io::Write;
fn main() {
    let manifest = std::fs::read_to_string("Cargo.toml").expect("Cargo.toml");
    let repo = manifest
        .lines()
        .find(|l| l.trim_start().starts_with("elf = "))
        .and_then(|l| l.split("path = \"").nth(1))
        .and_then(|r| r.split('"').next())
        .expect("elf path")
        .to_string();
    let src = std::fs::read_to_string(format!("{repo}/src/abi.rs")).expect("abi.rs");
    let out = std::env::var("OUT_DIR").unwrap();
    let mut f = std::fs::File::create(format!("{out}/abi_consts.rs")).unwrap();
    writeln!(f, "pub static ABI_CONSTS: &[(&str, &str, u64)] = &[").unwrap();
    for line in src.lines() {
        let l = line.trim();
        if let Some(rest) = l.strip_prefix("pub const ") {
            if let Some((name, tail)) = rest.split_once(':') {
                let ty = tail.trim().split(|c: char| c == ' ' || c == '=').next().unwrap_or("");
                if ["u8", "u16", "u32", "u64", "i64", "usize", "i32"].contains(&ty) {
                    writeln!(f, "    (\"{name}\", \"{ty}\", elf::abi::{name} as u64),", name = name.trim()).unwrap();
                }
            }
        }
    }
    writeln!(f, "];").unwrap();
    println!("cargo:rerun-if-changed={repo}/src/abi.rs");
    println!("cargo:rerun-if-changed=Cargo.toml");
}
