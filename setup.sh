#!/bin/sh
# Build the harness offline from files on disk and syntax-check every specification module.
set -e
cd /verif
mkdir -p work replay evidence
python3 -c "import sys; sys.path.insert(0,'tools'); import vlib; print('harness built in %.1fs' % vlib.build_harness())"
cd spec
for f in Words Abi Parse StrTab Header Note Hash SymVer ElfFile FileSem Features Trace; do
  out=$(tla-sany $f.tla 2>&1) || { echo "$out" | tail -20; exit 2; }
  echo "$out" | grep -qiE "Semantic errors|Fatal|\*\*\* Errors" && { echo "$out" | tail -20; exit 2; }
done
echo "specs parse"
